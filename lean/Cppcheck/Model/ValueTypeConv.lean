/-
C09 — executable copy of the part of `SymbolDatabase::setValueType` / `setValueTypeInTokenList`
(lib/symboldatabase.cpp) that gives an operator token its `ValueType` from the `ValueType`s of its operands, for
operands of arithmetic type (pointer depth 0, no container / record / iterator).

The copy is branch-for-branch, bugs included: the result of the integer block is chosen by comparing the
`ValueType::Type` ENUM VALUES of the operands (no platform size is consulted), `isTypeEqual` ignores the sign,
comparisons are typed `bool` in C as well, `++`/`--` results are promoted.  What the language requires instead is
`Cppcheck.ConvSpec`; the two are compared in `Cppcheck/Props/C09.lean`.
-/
namespace Cppcheck.ValueTypeConv

/-! ## Which state of the code is modelled

`base`  = lib/symboldatabase.cpp as pinned (and as long as /verif/proposed/C09-*.diff are not applied);
`fixA`  = with /verif/proposed/C09-usual-conversions.diff (integer promotions and usual arithmetic conversions
          consult the platform sizes);
`fixAB` = additionally /verif/proposed/C09-incdec-ternary.diff (`++`/`--` keep the operand type, `?:` compares the
          sign and, in C, promotes operands of one sub-`int` type).
The check finds out which of the three the working tree is by exhaustive correspondence and uses the theorems of
that variant. -/
inductive Variant
  | base | fixA | fixAB
  deriving DecidableEq, Repr, Inhabited

def Variant.all : List Variant := [.base, .fixA, .fixAB]

/-- the fields of `class Platform` (lib/platform.h) the conversion rules depend on; sizes in bytes.
    `name` is the `--platform=` spelling. -/
structure Plat where
  name : String
  charBit : Nat
  sizeofShort : Nat
  sizeofInt : Nat
  sizeofLong : Nat
  sizeofLongLong : Nat
  /-- `defaultSign == 'u'` -/
  charUnsigned : Bool
  deriving DecidableEq, Repr, Inhabited

/-- the outcomes of the size comparisons that matter: to the language rules (C17 6.3.1.1p2 / 6.3.1.8 ask "can S
    represent all values of U?") and to the patched code (`integerTypeSize(t) < platform.sizeof_int`,
    `integerTypeSize(hi) <= integerTypeSize(lo)`); plus `platform.defaultSign == 'u'` -/
structure Shape where
  /-- `1 < sizeof_int`: int represents every `unsigned char` -/
  charLtInt : Bool
  /-- `sizeof_short < sizeof_int`: int represents every `unsigned short` -/
  shortLtInt : Bool
  /-- `sizeof_int < sizeof_long`: long represents every `unsigned int` -/
  intLtLong : Bool
  /-- `sizeof_int < sizeof_long_long` -/
  intLtLLong : Bool
  /-- `sizeof_long < sizeof_long_long`: long long represents every `unsigned long` -/
  longLtLLong : Bool
  /-- plain `char` has the range of `unsigned char` -/
  charUnsigned : Bool
  deriving DecidableEq, Repr, Inhabited

def Plat.shape (P : Plat) : Shape :=
  { charLtInt := decide (1 < P.sizeofInt)
    shortLtInt := decide (P.sizeofShort < P.sizeofInt)
    intLtLong := decide (P.sizeofInt < P.sizeofLong)
    intLtLLong := decide (P.sizeofInt < P.sizeofLongLong)
    longLtLLong := decide (P.sizeofLong < P.sizeofLongLong)
    charUnsigned := P.charUnsigned }

/-! ## `ValueType::Type` (arithmetic part, in enum order) and `ValueType::Sign` -/

/-- `ValueType::Type` from `BOOL` upwards, in the order of the C++ enum; `rank` is the position (only the ORDER is
    used by the code: `vt1->type > vt2->type`, `vt.type < INT`, …).  `WCHAR_T` (between SHORT and INT) and
    `UNKNOWN_INT` (between LONGLONG and FLOAT) are left out: no operand of the modelled fragment has them and no
    modelled branch produces them (the harness would print `wchar` / `unkint`, which no model output equals). -/
inductive VType
  | bool | char | short | int | long | llong | float | double | ldouble
  deriving DecidableEq, Repr, Inhabited

def VType.rank : VType → Nat
  | .bool => 0 | .char => 1 | .short => 2 | .int => 4 | .long => 5 | .llong => 6
  | .float => 8 | .double => 9 | .ldouble => 10

inductive Sign
  | unknown | signed | unsigned
  deriving DecidableEq, Repr, Inhabited

/-- the fields of `ValueType` the modelled branches read or write (pointer = 0, reference = None throughout) -/
structure VT where
  type : VType
  sign : Sign
  deriving DecidableEq, Repr, Inhabited

/-- `ValueType::isIntegral`: `type >= BOOL && type <= UNKNOWN_INT` (UNKNOWN_INT sits just below FLOAT) -/
def VT.isIntegral (v : VT) : Bool := v.type.rank < VType.float.rank

/-- `ValueType::isFloat` -/
def VT.isFloat (v : VT) : Bool := VType.float.rank ≤ v.type.rank

/-! ## Declared operand types and what `parsedecl` makes of them -/

/-- the standard arithmetic types a variable of the generated programs is declared with -/
inductive CT
  | bool | char | schar | uchar | short | ushort | int | uint | long | ulong | llong | ullong
  | float | double | ldouble
  deriving DecidableEq, Repr, Inhabited

def CT.all : List CT :=
  [.bool, .char, .schar, .uchar, .short, .ushort, .int, .uint, .long, .ulong, .llong, .ullong, .float, .double, .ldouble]

def CT.ints : List CT :=
  [.bool, .char, .schar, .uchar, .short, .ushort, .int, .uint, .long, .ulong, .llong, .ullong]

def CT.isFloating : CT → Bool
  | .float | .double | .ldouble => true
  | _ => false

/-- `parsedecl` on the declaration of a variable of the type (→ `setValueType(tok, var)`): `typeFromString` gives the
    type, `isSigned()/isUnsigned()` the sign, and at the end "Set signedness for integral types": only types
    `>= SHORT` default to SIGNED — plain `char` and `bool` keep UNKNOWN_SIGN, as do the floating types. -/
def declVT : CT → VT
  | .bool => ⟨.bool, .unknown⟩
  | .char => ⟨.char, .unknown⟩
  | .schar => ⟨.char, .signed⟩
  | .uchar => ⟨.char, .unsigned⟩
  | .short => ⟨.short, .signed⟩
  | .ushort => ⟨.short, .unsigned⟩
  | .int => ⟨.int, .signed⟩
  | .uint => ⟨.int, .unsigned⟩
  | .long => ⟨.long, .signed⟩
  | .ulong => ⟨.long, .unsigned⟩
  | .llong => ⟨.llong, .signed⟩
  | .ullong => ⟨.llong, .unsigned⟩
  | .float => ⟨.float, .unknown⟩
  | .double => ⟨.double, .unknown⟩
  | .ldouble => ⟨.ldouble, .unknown⟩

/-! ## Operators, classified the way the code classifies the operator token -/

inductive BinOp
  | add | sub | mul | div | mod                     -- `Token::isArithmeticalOp()` (eArithmeticalOp: + - * / %)
  | band | bor | bxor                               -- `tokType() == eBitOp`
  | shl | shr                                       -- `Token::Match(parent, "<<|>>")`
  | lt | le | gt | ge | eq | ne                     -- `isComparisonOp()`
  | land | lor                                      -- `tokType() == eLogicalOp`
  | assign | addA | subA | mulA | divA | modA | andA | orA | xorA | shlA | shrA   -- `isAssignmentOp()`
  deriving DecidableEq, Repr, Inhabited

def BinOp.all : List BinOp :=
  [.add, .sub, .mul, .div, .mod, .band, .bor, .bxor, .shl, .shr, .lt, .le, .gt, .ge, .eq, .ne, .land, .lor,
   .assign, .addA, .subA, .mulA, .divA, .modA, .andA, .orA, .xorA, .shlA, .shrA]

inductive OpClass
  | arith | bit | shift | cmp | logical | assign
  deriving DecidableEq, Repr

def BinOp.cls : BinOp → OpClass
  | .add | .sub | .mul | .div | .mod => .arith
  | .band | .bor | .bxor => .bit
  | .shl | .shr => .shift
  | .lt | .le | .gt | .ge | .eq | .ne => .cmp
  | .land | .lor => .logical
  | _ => .assign

/-- operators whose operands must be integers in a valid program (`%`, bit operators, shifts and their assignments) -/
def BinOp.intOnly : BinOp → Bool
  | .mod | .band | .bor | .bxor | .shl | .shr | .modA | .andA | .orA | .xorA | .shlA | .shrA => true
  | _ => false

inductive UnOp
  | neg            -- unary `-` : isArithmeticalOp, no astOperand2
  | bnot           -- `~`      : eBitOp
  | lnot           -- `!`      : eLogicalOp
  | preInc | preDec | postInc | postDec     -- eIncDecOp
  deriving DecidableEq, Repr, Inhabited

def UnOp.all : List UnOp := [.neg, .bnot, .lnot, .preInc, .preDec, .postInc, .postDec]

def UnOp.isIncDec : UnOp → Bool
  | .preInc | .preDec | .postInc | .postDec => true
  | _ => false

/-! ## The code -/

/-- the three `if (vt1->type == LONGDOUBLE || (vt2 && vt2->type == LONGDOUBLE))` … `FLOAT` tests (lines 7371–7382);
    `none` = fall through -/
def floatRanks (vt1 : VT) (vt2 : Option VT) : Option VT :=
  let has (t : VType) : Bool := vt1.type == t || (match vt2 with | some v => v.type == t | none => false)
  if has .ldouble then some ⟨.ldouble, .unknown⟩
  else if has .double then some ⟨.double, .unknown⟩
  else if has .float then some ⟨.float, .unknown⟩
  else none

/-- the final block (lines 7397–7428) AS PINNED: both operands integral, pointer 0.  `ternary` only disables the
    promotion of a `BOOL` result.  NOTE: ranks are compared through the enum value; no size is consulted; a result
    below `INT` becomes `signed int` whatever the size of `int`. -/
def rankSelect (vt1 : VT) (vt2 : Option VT) : VT :=
  match vt2 with
  | none => vt1
  | some v2 =>
    if vt1.type.rank > v2.type.rank then vt1
    else if vt1.type = v2.type then
      ⟨vt1.type,
       if vt1.sign = .unsigned ∨ v2.sign = .unsigned then .unsigned
       else if vt1.sign = .unknown ∨ v2.sign = .unknown then .unknown
       else .signed⟩
    else v2

def integralBlockBase (ternary : Bool) (vt1 : VT) (vt2 : Option VT) : Option VT :=
  let ok2 := match vt2 with | some v => v.isIntegral | none => true
  if vt1.isIntegral && ok2 then
    let vt := rankSelect vt1 vt2
    if vt.type.rank < VType.int.rank && !(ternary && vt.type == .bool) then some ⟨.int, .signed⟩
    else some vt
  else none

/-! ### the patched code (proposed diffs) -/

/-- `integerTypeSize(type, platform) < platform.sizeof_int` for a type below INT (BOOL/CHAR: size 1) -/
def typeLtInt (s : Shape) : VType → Bool
  | .short => s.shortLtInt
  | _ => s.charLtInt

/-- `integerPromotion(vt, platform)` of the patch -/
def integerPromotion (s : Shape) (v : VT) : VT :=
  if VType.int.rank ≤ v.type.rank then v
  else
    let isUnsigned := v.sign == .unsigned || (v.type == .char && v.sign == .unknown && s.charUnsigned)
    let fitsInt := !isUnsigned || v.type == .bool || typeLtInt s v.type
    ⟨.int, if fitsInt then .signed else .unsigned⟩

/-- `integerTypeSize(hi) <= integerTypeSize(lo)` for `hi`, `lo` in INT/LONG/LONGLONG with `lo` not above `hi` in the
    enum (the only way the patched code calls it); `none` = a call the code cannot make -/
def sizeLe (s : Shape) (hi lo : VType) : Option Bool :=
  match hi, lo with
  | .int, .int | .long, .long | .llong, .llong => some true
  | .long, .int => some (!s.intLtLong)
  | .llong, .int => some (!s.intLtLLong)
  | .llong, .long => some (!s.longLtLLong)
  | _, _ => none

/-- the final block with the patch(es): promotion and the mixed-sign rule consult the sizes; with
    `incdecKeeps` (second patch) `++`/`--` are not promoted -/
def integralBlockFix (incdecKeeps : Bool) (s : Shape) (ternary incdec : Bool) (vt1 : VT) (vt2 : Option VT) : Option VT :=
  let ok2 := match vt2 with | some v => v.isIntegral | none => true
  if vt1.isIntegral && ok2 then
    let vt := rankSelect vt1 vt2
    if !(incdecKeeps && incdec) && vt.type.rank < VType.int.rank && !(ternary && vt.type == .bool) then
      let p1 := integerPromotion s vt1
      let p2 := integerPromotion s (match vt2 with | some v => v | none => vt1)
      some ⟨.int, if p1.sign == .unsigned || p2.sign == .unsigned then .unsigned else .signed⟩
    else
      match vt2 with
      | none => some vt
      | some v2 =>
        if vt1.type ≠ v2.type ∧ VType.int.rank ≤ vt.type.rank ∧ vt.type.rank ≤ VType.llong.rank ∧ vt.sign = .signed then
          let lower := integerPromotion s (if vt1.type.rank < v2.type.rank then vt1 else v2)
          if lower.sign == .unsigned then
            match sizeLe s vt.type lower.type with
            | some true => some ⟨vt.type, .unsigned⟩
            | some false => some vt
            | none => none
          else some vt
        else some vt
  else none

def integralBlock (v : Variant) (s : Shape) (ternary incdec : Bool) (vt1 : VT) (vt2 : Option VT) : Option VT :=
  match v with
  | .base => integralBlockBase ternary vt1 vt2
  | .fixA => integralBlockFix false s ternary incdec vt1 vt2
  | .fixAB => integralBlockFix true s ternary incdec vt1 vt2

/-- the type a shift takes from its left operand: `vt1->type < BOOL || vt1->type >= INT` → `*vt1` (types below BOOL
    are not in the model), else "Integer promotion": `signed int` as pinned, `integerPromotion` with the patch -/
def shiftResult (v : Variant) (s : Shape) (vt1 : VT) : VT :=
  if VType.int.rank ≤ vt1.type.rank then vt1
  else match v with
    | .base => ⟨.int, .signed⟩
    | _ => integerPromotion s vt1

/-- `a op b` with both operands typed, by operator class (`none` = the operator token gets no ValueType).
    `cpp` only matters for shifts (`!parent->isCpp() || (vt2 && vt2->isIntegral())`). -/
def convCls (v : Variant) (s : Shape) (cpp : Bool) (c : OpClass) (vt1 vt2 : VT) : Option VT :=
  match c with
  | .cmp | .logical => some ⟨.bool, .unknown⟩        -- setValueTypeInTokenList, before the operands are looked at
  | .shift => if !cpp || vt2.isIntegral then some (shiftResult v s vt1) else none
  | .assign => some vt1
  | .arith =>
    match floatRanks vt1 (some vt2) with
    | some r => some r
    | none => integralBlock v s false false vt1 (some vt2)
  | .bit => integralBlock v s false false vt1 (some vt2)

def convBin (v : Variant) (s : Shape) (cpp : Bool) (op : BinOp) (vt1 vt2 : VT) : Option VT :=
  convCls v s cpp op.cls vt1 vt2

/-- unary operators (`parent->astOperand2()` is null, so `vt2` is null) -/
def convUn (v : Variant) (s : Shape) (op : UnOp) (vt1 : VT) : Option VT :=
  match op with
  | .lnot => some ⟨.bool, .unknown⟩
  | .bnot => integralBlock v s false false vt1 none
  | _ =>                                             -- unary minus (arithmetical op) and ++/-- (eIncDecOp)
    match floatRanks vt1 none with
    | some r => some r
    | none => integralBlock v s false op.isIncDec vt1 none

/-- `c ? a : b`: the type given to the `?` token (vt1/vt2 are the types of `a` and `b`):
    `isTypeEqual` (same `type`; as pinned the SIGN IS NOT COMPARED) → the type of `a`; floating ranks; integral block. -/
def convTernary (v : Variant) (s : Shape) (cpp : Bool) (vt1 vt2 : VT) : Option VT :=
  let same : Bool :=
    match v with
    | .fixAB => vt1.type == vt2.type &&
        (!vt1.isIntegral || (vt1.sign == vt2.sign && (cpp || VType.int.rank ≤ vt1.type.rank || vt1.type == .bool)))
    | _ => vt1.type == vt2.type
  if same then some vt1
  else
    match floatRanks vt1 (some vt2) with
    | some r => some r
    | none => integralBlock v s true false vt1 (some vt2)

/-- the type given to the `:` token of `c ? a : b` (only when type, sign and pointer agree) -/
def convColon (vt1 vt2 : VT) : Option VT :=
  if vt1.type = vt2.type ∧ vt1.sign = vt2.sign then some vt2 else none

/-- C-style cast `(T)a`: `parsedecl` of the type in the parentheses -/
def convCast (target : CT) : VT := declVT target

/-! ## Integer literals (`setValueTypeInTokenList`, the `tok->isNumber()` / `MathLib::isInt` branch) -/

/-- `Platform::max_value(bit)`: `(1LL << (bit-1)) - 1`, for `bit >= 64` the constant `(~0ULL) >> 1` -/
def maxValue (bit : Nat) : Nat := if bit ≥ 64 then 2 ^ 63 - 1 else 2 ^ (bit - 1) - 1

/-- the type given to an integer literal when the platform is not `Unspecified`.
    `imax lmax llmax` = `max_value(int_bit)`, `max_value(long_bit)`, `max_value(long_long_bit)`;
    `dec` = `MathLib::isDec(tokStr)` (digits only — an OCTAL literal is `dec` for the code);
    `us` = the spelling contains `u`/`U`; `longs` = number of `l`/`L` in the suffix (0, 1, 2);
    `value` = `MathLib::toBigUNumber(tokStr)`.
    The code tests `isIntValue(unsignedSuffix ? value >> 1 : value)` and, for non-decimal spellings,
    `isIntValue(value >> 1)` (since /repo commit a4b8285; the pinned code had `>> 2`, which admitted twice `UINT_MAX`). -/
def litTypeCore (imax lmax llmax : Nat) (dec us : Bool) (longs value : Nat) : VT :=
  let sign0 : Sign := if us then .unsigned else .signed
  let v1 := if us then value >>> 1 else value
  if longs = 0 ∧ v1 ≤ imax then ⟨.int, sign0⟩
  else if longs = 0 ∧ dec = false ∧ value >>> 1 ≤ imax then ⟨.int, .unsigned⟩
  else if longs ≤ 1 ∧ v1 ≤ lmax then ⟨.long, sign0⟩
  else if longs ≤ 1 ∧ dec = false ∧ value >>> 1 ≤ lmax then ⟨.long, .unsigned⟩
  else if v1 ≤ llmax then ⟨.llong, sign0⟩
  else ⟨.llong, .unsigned⟩

/-- `Platform::Type::Unspecified`: the suffix alone decides -/
def litTypeUnspecified (us : Bool) (longs : Nat) : VT :=
  ⟨if longs = 0 then .int else if longs = 1 then .long else .llong, if us then .unsigned else .signed⟩

def litType (P : Plat) (unspecified : Bool) (dec us : Bool) (longs value : Nat) : VT :=
  if unspecified then litTypeUnspecified us longs
  else litTypeCore (maxValue (P.charBit * P.sizeofInt)) (maxValue (P.charBit * P.sizeofLong))
         (maxValue (P.charBit * P.sizeofLongLong)) dec us longs value

/-! ## Expression trees: the type of a nested expression is the fold of the per-node rules

`setValueType(tok, vt)` types the AST parent as soon as all its operands carry a `ValueType`, and the parent's type is a
function of the operator and the operands' `ValueType`s only.  For operands of arithmetic type this makes the type of a whole
tree the fold below.  That the real code is compositional in this way is what the nested-expression correspondence of the
check tests (depth 2–4 trees with variables and literals as leaves). -/

/-- how an integer literal is spelled; binary literals go with hexadecimal ("octal or hexadecimal constant" column of
    C17 6.4.4.1p5; `MathLib::isDec` is false for both) -/
inductive Base
  | dec | oct | hex
  deriving DecidableEq, Repr, Inhabited

inductive Expr
  | var (t : CT)                                        -- a declared variable (parameter) of the type
  | lit (base : Base) (us : Bool) (longs value : Nat)   -- an integer literal
  | un (op : UnOp) (e : Expr)
  | bin (op : BinOp) (a b : Expr)
  | tern (c a b : Expr)                                 -- `c ? a : b`
  | cast (t : CT) (e : Expr)                            -- `(T)e`
  deriving Repr, Inhabited

/-- the `ValueType` the code attaches to the root token of the expression (`P` not `Type::Unspecified`) -/
def typeOf (v : Variant) (P : Plat) (cpp : Bool) : Expr → Option VT
  | .var t => some (declVT t)
  | .lit base us longs value => some (litType P false (base != .hex) us longs value)
  | .un op e =>
    match typeOf v P cpp e with
    | some x => convUn v P.shape op x
    | none => none
  | .bin op a b =>
    match typeOf v P cpp a, typeOf v P cpp b with
    | some x, some y => convBin v P.shape cpp op x y
    | _, _ => none
  | .tern _ a b =>
    match typeOf v P cpp a, typeOf v P cpp b with
    | some x, some y => convTernary v P.shape cpp x y
    | _, _ => none
  | .cast t _ => some (convCast t)

/-! ## Rendering for the driver -/

def VType.str : VType → String
  | .bool => "bool" | .char => "char" | .short => "short" | .int => "int" | .long => "long"
  | .llong => "llong" | .float => "float" | .double => "double" | .ldouble => "ldouble"

def Sign.str : Sign → String
  | .unknown => "x" | .signed => "s" | .unsigned => "u"

def VT.str (v : VT) : String := v.type.str ++ ":" ++ v.sign.str

def optStr : Option VT → String
  | some v => v.str
  | none => "-"

def CT.name : CT → String
  | .bool => "bool" | .char => "char" | .schar => "schar" | .uchar => "uchar" | .short => "short" | .ushort => "ushort"
  | .int => "int" | .uint => "uint" | .long => "long" | .ulong => "ulong" | .llong => "llong" | .ullong => "ullong"
  | .float => "float" | .double => "double" | .ldouble => "ldouble"

def CT.ofName (s : String) : Option CT := CT.all.find? (fun t => t.name == s)

def BinOp.name : BinOp → String
  | .add => "add" | .sub => "sub" | .mul => "mul" | .div => "div" | .mod => "mod" | .band => "band" | .bor => "bor"
  | .bxor => "bxor" | .shl => "shl" | .shr => "shr" | .lt => "lt" | .le => "le" | .gt => "gt" | .ge => "ge" | .eq => "eq"
  | .ne => "ne" | .land => "land" | .lor => "lor" | .assign => "assign" | .addA => "addA" | .subA => "subA"
  | .mulA => "mulA" | .divA => "divA" | .modA => "modA" | .andA => "andA" | .orA => "orA" | .xorA => "xorA"
  | .shlA => "shlA" | .shrA => "shrA"

def UnOp.name : UnOp → String
  | .neg => "neg" | .bnot => "bnot" | .lnot => "lnot" | .preInc => "preInc" | .preDec => "preDec"
  | .postInc => "postInc" | .postDec => "postDec"

end Cppcheck.ValueTypeConv

import Cppcheck.Model.Wire
/-
XML escaping as cppcheck does it (C26; reusable by C14 / C20).

* `fixInvalidChars`  = `ErrorMessage::fixInvalidChars` (lib/errorlogger.cpp)
* `toxml`            = `ErrorLogger::toxml`            (lib/errorlogger.cpp)
* `printString`      = `tinyxml2::XMLPrinter::PrintString` (externals/tinyxml2/tinyxml2.cpp) over the
                       entity table `tinyEntities` (the translator of C26 extracts the table of the working
                       tree into `Gen/TinyXmlEntities.lean`; `Props/C26.lean` proves the two equal)
* `Finding`, `toXML` = `ErrorMessage::toXML` (the tinyxml2 printer calls it makes, layout included)
* `XmlRd`            = a strict reader for the subset of XML 1.0 the reports use (a `foldl` state machine):
                       the reference against which well-formedness and "carries the same data" are stated.

A byte string is a `List Char` with codes < 256.  Only core Lean; no other model is imported.
-/
namespace Cppcheck.XmlEsc

export Cppcheck.Wire (Str)

/-! ## small helpers -/

/-- what a `const char*` consumer sees of a `std::string`: the bytes in front of the first NUL -/
def cstr (s : Str) : Str := s.takeWhile (fun c => c.toNat != 0)

def digitChar (n : Nat) : Char := Char.ofNat (48 + n % 10)

def natDecAux : Nat → Nat → Str → Str
  | 0, _, acc => acc
  | fuel + 1, n, acc =>
    let acc' := digitChar n :: acc
    if n / 10 = 0 then acc' else natDecAux fuel (n / 10) acc'

/-- `std::to_string` / `%u` of a non-negative number -/
def natDec (n : Nat) : Str := natDecAux (n + 1) n []

/-- `std::to_string` / `%d` -/
def intDec : Int → Str
  | .ofNat n => natDec n
  | .negSucc n => '-' :: natDec (n + 1)

/-! ## `ErrorMessage::fixInvalidChars` -/

/-- `std::isprint` in the "C" locale (cppcheck never calls `setlocale`) -/
def isPrintC (c : Char) : Bool := 0x20 ≤ c.toNat && c.toNat ≤ 0x7e

def octDigit (n : Nat) : Char := Char.ofNat (48 + n % 8)

/-- `'\\' << setbase(8) << setw(3) << setfill('0') << (unsigned char)c` -/
def fixChar (c : Char) : Str :=
  if isPrintC c then [c] else ['\\', octDigit (c.toNat / 64), octDigit (c.toNat / 8), octDigit c.toNat]

def fixInvalidChars (s : Str) : Str := s.flatMap fixChar

/-! ## `ErrorLogger::toxml` -/

def toxmlChar (c : Char) : Str :=
  if c = '<' then "&lt;".toList
  else if c = '>' then "&gt;".toList
  else if c = '&' then "&amp;".toList
  else if c = '"' then "&quot;".toList
  else if c = '\'' then "&apos;".toList
  else if c.toNat = 0 then "\\0".toList
  else if c = '\n' then "&#10;".toList
  else if c = '\t' then "&#09;".toList
  else if c = '\r' then "&#13;".toList
  else if 0x20 ≤ c.toNat ∧ c.toNat ≤ 0x7f then [c]
  else ['x']

def toxml (s : Str) : Str := s.flatMap toxmlChar

/-! ## tinyxml2 `XMLPrinter::PrintString` -/

structure Entity where
  pattern : Str
  value : Char
  deriving DecidableEq, Repr

/-- `entities[NUM_ENTITIES]` of externals/tinyxml2/tinyxml2.cpp -/
def tinyEntities : List Entity :=
  [⟨"quot".toList, '"'⟩, ⟨"amp".toList, '&'⟩, ⟨"apos".toList, '\''⟩, ⟨"lt".toList, '<'⟩, ⟨"gt".toList, '>'⟩]

/-- `ENTITY_RANGE` of externals/tinyxml2/tinyxml2.h -/
def entityRange : Nat := 64

/-- `_entityFlag` (attribute values) / `_restrictedEntityFlag` (text) as the constructor fills them -/
def entityFlag (ents : List Entity) (restricted : Bool) (c : Char) : Bool :=
  if restricted then c = '&' || c = '<' || c = '>' else ents.any (fun e => e.value = c)

/-- one byte of `PrintString`: `*q > 0 && *q < ENTITY_RANGE` is a *signed char* comparison, so bytes
    ≥ 0x80 are never looked up; a flagged byte without table entry is dropped (`++p` after the loop) -/
def printCharWith (ents : List Entity) (range : Nat) (restricted : Bool) (c : Char) : Str :=
  if 0 < c.toNat ∧ c.toNat < range ∧ c.toNat < 128 ∧ entityFlag ents restricted c = true then
    match ents.find? (fun e => e.value = c) with
    | some e => '&' :: (e.pattern ++ [';'])
    | none => []
  else [c]

def printStringWith (ents : List Entity) (range : Nat) (restricted : Bool) (s : Str) : Str :=
  (cstr s).flatMap (printCharWith ents range restricted)

def printChar (restricted : Bool) (c : Char) : Str := printCharWith tinyEntities entityRange restricted c

/-- `XMLPrinter::PrintString(p, restricted)` for a `std::string::c_str()` argument -/
def printString (restricted : Bool) (s : Str) : Str := printStringWith tinyEntities entityRange restricted s

/-! ## findings -/

/-- `ErrorMessage::FileLocation` (file = `mFileName`, already simplified; origFile = `mOrigFileName`) -/
structure Loc where
  file : Str
  origFile : Str
  line : Int
  column : Nat
  info : Str
  deriving DecidableEq, Repr

/-- `ErrorMessage`; `severity` is the enum value (none=0 error=1 warning=2 style=3 performance=4 portability=5
    information=6 debug=7 internal=8); `stack` in `callStack` order (front first) -/
structure Finding where
  id : Str
  guideline : Str := []
  classification : Str := []
  severity : Nat
  cwe : Nat := 0
  hash : Nat := 0
  inconclusive : Bool := false
  file0 : Str := []
  shortMsg : Str
  verboseMsg : Str
  symbols : Str := []
  remark : Str := []
  stack : List Loc := []
  deriving DecidableEq, Repr

def sevStr (n : Nat) : Str :=
  match n with
  | 1 => "error".toList | 2 => "warning".toList | 3 => "style".toList | 4 => "performance".toList
  | 5 => "portability".toList | 6 => "information".toList | 7 => "debug".toList | 8 => "internal".toList
  | _ => []

/-! ## `ErrorMessage::toXML` -/

/-- `PushAttribute(name, value)` -/
def attr (name : String) (v : Str) : Str :=
  ' ' :: (name.toList ++ ('=' :: '"' :: (printString false v ++ ['"'])))

def spaces (n : Nat) : Str := List.replicate n ' '

/-- the pieces `toXML` cuts `mSymbolNames` into (`find('\n', pos)` loop) -/
def splitSymbolsAux : Str → Str → List Str
  | [], cur => if cur.isEmpty then [] else [cur.reverse]
  | c :: r, cur => if c = '\n' then cur.reverse :: splitSymbolsAux r [] else splitSymbolsAux r (c :: cur)

def splitSymbols (s : Str) : List Str := splitSymbolsAux s []

/-- the attributes a `PushAttribute` sequence writes: (name, condition of the `if` around the call, value passed) -/
def present (t : List (String × Bool × Str)) : List (String × Str) :=
  (t.filter (fun x => x.2.1)).map (fun x => (x.1, x.2.2))

def locAttrTable (l : Loc) : List (String × Bool × Str) :=
  [("origfile", l.origFile ≠ l.file, l.origFile),
   ("file", true, l.file),
   ("line", true, intDec (if l.line < 0 then 0 else l.line)),
   ("column", true, natDec l.column),
   ("info", l.info ≠ [], fixInvalidChars l.info)]

def locAttrs (l : Loc) : Str := (present (locAttrTable l)).flatMap (fun p => attr p.1 p.2)

/-- OpenElement("location") … CloseElement inside `<error>` (printer depth 3) -/
def locXml (l : Loc) : Str := '\n' :: (spaces 12 ++ "<location".toList ++ locAttrs l ++ "/>".toList)

def symXml (s : Str) : Str :=
  '\n' :: (spaces 12 ++ "<symbol>".toList ++ printString true s ++ "</symbol>".toList)

def errAttrTable (f : Finding) : List (String × Bool × Str) :=
  [("id", true, f.id),
   ("guideline", f.guideline ≠ [], f.guideline),
   ("severity", true, sevStr f.severity),
   ("classification", f.classification ≠ [], f.classification),
   ("msg", true, fixInvalidChars f.shortMsg),
   ("verbose", true, fixInvalidChars f.verboseMsg),
   ("cwe", f.cwe ≠ 0, natDec f.cwe),
   ("hash", f.hash ≠ 0, natDec f.hash),
   ("inconclusive", f.inconclusive, "true".toList),
   ("file0", f.file0 ≠ [], f.file0),
   ("remark", f.remark ≠ [], fixInvalidChars f.remark)]

def errAttrs (f : Finding) : Str := (present (errAttrTable f)).flatMap (fun p => attr p.1 p.2)

/-- children in output order: the call stack back to front, then the symbols -/
def children (f : Finding) : Str :=
  (f.stack.reverse.flatMap locXml) ++ ((splitSymbols f.symbols).flatMap symXml)

/-- `ErrorMessage::toXML()` (`XMLPrinter printer(nullptr, false, 2)`) -/
def toXML (f : Finding) : Str :=
  spaces 8 ++ "<error".toList ++ errAttrs f ++
  (if f.stack = [] ∧ splitSymbols f.symbols = [] then "/>".toList
   else '>' :: (children f ++ ('\n' :: (spaces 8 ++ "</error>".toList))))

/-! ## XmlRd: a strict reader for the XML subset of the reports

One `foldl` over the bytes (so reading a concatenation is reading the parts one after the other).  It accepts a
*subset* of XML 1.0 documents and, on that subset, returns what a conforming processor reports: elements,
attributes (unique names, entity references to the five predefined entities, attribute-value normalisation
`\t \n \r -> ' '`, CR LF -> one blank), character data (line-end normalisation), legal characters only
(no C0 controls except `\t \n \r`, valid UTF-8, no U+FFFE/U+FFFF).  Not accepted although legal XML: numeric
character references, comments, processing instructions / XML declaration, CDATA, DOCTYPE, a raw '>' in character
data, non-ASCII names.  a colon in a name. `toXML` never writes any of these. -/

def isWs (c : Char) : Bool := c = ' ' || c = '\t' || c = '\n' || c = '\r'

/-- names are ASCII and colon-free (a colon would need a namespace declaration for namespace-aware processors) -/
def nameStart (c : Char) : Bool :=
  ('a' ≤ c && c ≤ 'z') || ('A' ≤ c && c ≤ 'Z') || c = '_'

def nameChar (c : Char) : Bool := nameStart c || ('0' ≤ c && c ≤ '9') || c = '-' || c = '.'

def isCont (c : Char) : Bool := 0x80 ≤ c.toNat && c.toNat ≤ 0xBF

/-- well-formed UTF-8 (shortest form, no surrogates, ≤ U+10FFFF) without the XML non-characters U+FFFE / U+FFFF -/
def utf8Valid : Str → Bool
  | [] => true
  | a :: r =>
    if a.toNat < 0x80 then utf8Valid r
    else if 0xC2 ≤ a.toNat ∧ a.toNat ≤ 0xDF then
      match r with
      | b :: r' => isCont b && utf8Valid r'
      | [] => false
    else if 0xE0 ≤ a.toNat ∧ a.toNat ≤ 0xEF then
      match r with
      | b :: c :: r' =>
        isCont b && isCont c && (a.toNat != 0xE0 || 0xA0 ≤ b.toNat) && (a.toNat != 0xED || b.toNat ≤ 0x9F) &&
        !(a.toNat = 0xEF && b.toNat = 0xBF && (c.toNat = 0xBE || c.toNat = 0xBF)) && utf8Valid r'
      | _ => false
    else if 0xF0 ≤ a.toNat ∧ a.toNat ≤ 0xF4 then
      match r with
      | b :: c :: d :: r' =>
        isCont b && isCont c && isCont d && (a.toNat != 0xF0 || 0x90 ≤ b.toNat) && (a.toNat != 0xF4 || b.toNat ≤ 0x8F) &&
        utf8Valid r'
      | _ => false
    else false

/-- the predefined entities of XML 1.0 §4.6 -/
def predef (n : Str) : Option Char :=
  if n = "lt".toList then some '<'
  else if n = "gt".toList then some '>'
  else if n = "amp".toList then some '&'
  else if n = "apos".toList then some '\''
  else if n = "quot".toList then some '"'
  else none

inductive Ev where
  | opn (name : Str) (attrs : List (Str × Str))
  | cls (name : Str)
  | txt (s : Str)
  deriving DecidableEq, Repr

/-- reader modes; every accumulator is kept reversed -/
inductive Mode where
  | content (acc : Str) (cr : Bool)
  | entT (acc : Str) (en : Str)
  | tagStart
  | openName (tag : Str)
  | attrs (tag : Str) (as : List (Str × Str)) (ws : Bool)
  | attrName (tag : Str) (as : List (Str × Str)) (an : Str)
  | afterName (tag : Str) (as : List (Str × Str)) (an : Str)
  | beforeQuote (tag : Str) (as : List (Str × Str)) (an : Str)
  | value (tag : Str) (as : List (Str × Str)) (an : Str) (q : Char) (av : Str) (cr : Bool)
  | entA (tag : Str) (as : List (Str × Str)) (an : Str) (q : Char) (av : Str) (en : Str)
  | emptyGt (tag : Str) (as : List (Str × Str))
  | closeName (tag : Str)
  | closeWs (tag : Str)
  | bad
  deriving DecidableEq, Repr

structure St where
  mode : Mode
  stack : List Str
  evs : List Ev
  rootSeen : Bool
  deriving DecidableEq, Repr

def St.fail (s : St) : St := { s with mode := .bad }

def emitOpen (s : St) (tag : Str) (as : List (Str × Str)) : St :=
  if s.stack = [] ∧ s.rootSeen = true then s.fail
  else { mode := .content [] false, stack := tag :: s.stack, evs := .opn tag as.reverse :: s.evs, rootSeen := true }

def emitEmpty (s : St) (tag : Str) (as : List (Str × Str)) : St :=
  if s.stack = [] ∧ s.rootSeen = true then s.fail
  else { s with mode := .content [] false, evs := .cls tag :: .opn tag as.reverse :: s.evs, rootSeen := true }

def doClose (s : St) (tag : Str) : St :=
  match s.stack with
  | top :: rest => if top = tag then { s with mode := .content [] false, stack := rest, evs := .cls tag :: s.evs } else s.fail
  | [] => s.fail

/-- character data collected so far is complete (a '<' follows) -/
def flushText (s : St) (acc : Str) : St :=
  if acc = [] then { s with mode := .tagStart }
  else if s.stack = [] then (if acc.all isWs then { s with mode := .tagStart } else s.fail)
  else if utf8Valid acc.reverse then { s with mode := .tagStart, evs := .txt acc.reverse :: s.evs }
  else s.fail

def step (s : St) (c : Char) : St :=
  match s.mode with
  | .bad => s
  | .content acc cr =>
    if c = '<' then flushText s acc
    else if c = '&' then (if s.stack = [] then s.fail else { s with mode := .entT acc [] })
    else if c = '>' then s.fail
    else if c = '\r' then { s with mode := .content ('\n' :: acc) true }
    else if c = '\n' then (if cr then { s with mode := .content acc false } else { s with mode := .content ('\n' :: acc) false })
    else if 0x20 ≤ c.toNat ∨ c = '\t' then { s with mode := .content (c :: acc) false }
    else s.fail
  | .entT acc en =>
    if c = ';' then
      match predef en.reverse with
      | some v => { s with mode := .content (v :: acc) false }
      | none => s.fail
    else if nameChar c then { s with mode := .entT acc (c :: en) }
    else s.fail
  | .tagStart =>
    if c = '/' then (if s.stack = [] then s.fail else { s with mode := .closeName [] })
    else if nameStart c then { s with mode := .openName [c] }
    else s.fail
  | .openName tag =>
    if nameChar c then { s with mode := .openName (c :: tag) }
    else if isWs c then { s with mode := .attrs tag.reverse [] true }
    else if c = '/' then { s with mode := .emptyGt tag.reverse [] }
    else if c = '>' then emitOpen s tag.reverse []
    else s.fail
  | .attrs tag as ws =>
    if isWs c then { s with mode := .attrs tag as true }
    else if c = '/' then { s with mode := .emptyGt tag as }
    else if c = '>' then emitOpen s tag as
    else if nameStart c ∧ ws = true then { s with mode := .attrName tag as [c] }
    else s.fail
  | .attrName tag as an =>
    if nameChar c then { s with mode := .attrName tag as (c :: an) }
    else if c = '=' then { s with mode := .beforeQuote tag as an.reverse }
    else if isWs c then { s with mode := .afterName tag as an.reverse }
    else s.fail
  | .afterName tag as an =>
    if isWs c then s
    else if c = '=' then { s with mode := .beforeQuote tag as an }
    else s.fail
  | .beforeQuote tag as an =>
    if isWs c then s
    else if c = '"' ∨ c = '\'' then { s with mode := .value tag as an c [] false }
    else s.fail
  | .value tag as an q av cr =>
    if c = q then
      (if as.any (fun p => p.1 = an) then s.fail
       else if utf8Valid av.reverse then { s with mode := .attrs tag ((an, av.reverse) :: as) false }
       else s.fail)
    else if c = '<' then s.fail
    else if c = '&' then { s with mode := .entA tag as an q av [] }
    else if c = '\r' then { s with mode := .value tag as an q (' ' :: av) true }
    else if c = '\n' then
      (if cr then { s with mode := .value tag as an q av false } else { s with mode := .value tag as an q (' ' :: av) false })
    else if c = '\t' then { s with mode := .value tag as an q (' ' :: av) false }
    else if 0x20 ≤ c.toNat then { s with mode := .value tag as an q (c :: av) false }
    else s.fail
  | .entA tag as an q av en =>
    if c = ';' then
      match predef en.reverse with
      | some v => { s with mode := .value tag as an q (v :: av) false }
      | none => s.fail
    else if nameChar c then { s with mode := .entA tag as an q av (c :: en) }
    else s.fail
  | .emptyGt tag as => if c = '>' then emitEmpty s tag as else s.fail
  | .closeName tag =>
    if (if tag = [] then nameStart c else nameChar c) then { s with mode := .closeName (c :: tag) }
    else if tag = [] then s.fail
    else if isWs c then { s with mode := .closeWs tag.reverse }
    else if c = '>' then doClose s tag.reverse
    else s.fail
  | .closeWs tag =>
    if isWs c then s
    else if c = '>' then doClose s tag
    else s.fail

def init : St := { mode := .content [] false, stack := [], evs := [], rootSeen := false }

def run (s : St) (doc : Str) : St := doc.foldl step s

/-- the events of a complete document: exactly one root element, everything closed, only blanks around it -/
def finish (s : St) : Option (List Ev) :=
  match s.mode with
  | .content acc _ => if s.stack = [] ∧ s.rootSeen = true ∧ acc.all isWs = true then some s.evs.reverse else none
  | _ => none

def readXml (doc : Str) : Option (List Ev) := finish (run init doc)

/-- what a reader recovers from one `<error>` element -/
structure XErr where
  attrs : List (Str × Str)
  locs : List (List (Str × Str))
  syms : List Str
  deriving DecidableEq, Repr

def readChildren : List Ev → List (List (Str × Str)) → List Str → Option (List (List (Str × Str)) × List Str)
  | [.cls n], locs, syms => if n = "error".toList then some (locs.reverse, syms.reverse) else none
  | .txt t :: r, locs, syms => if t.all isWs then readChildren r locs syms else none
  | .opn n la :: .cls n' :: r, locs, syms =>
    if n = "location".toList ∧ n' = n then readChildren r (la :: locs) syms
    else if n = "symbol".toList ∧ n' = n ∧ la = [] then readChildren r locs ([] :: syms)
    else none
  | .opn n la :: .txt t :: .cls n' :: r, locs, syms =>
    if n = "symbol".toList ∧ n' = n ∧ la = [] then readChildren r locs (t :: syms) else none
  | _, _, _ => none

def readError (evs : List Ev) : Option XErr :=
  match evs with
  | .opn n as :: r =>
    if n = "error".toList then (readChildren r [] []).map (fun p => { attrs := as, locs := p.1, syms := p.2 }) else none
  | _ => none

/-- read one serialised finding -/
def parseError (doc : Str) : Option XErr := (readXml doc).bind readError

/-- well-formed (in the subset of `XmlRd`) -/
def wf (doc : Str) : Bool := (readXml doc).isSome

/-! ## what `toXML` is meant to carry -/

/-- name and value (as a `const char*` consumer sees it) of the attributes written -/
def carried (t : List (String × Bool × Str)) : List (Str × Str) :=
  (present t).map (fun p => (p.1.toList, cstr p.2))

/-- the data of a finding as the XML report documents it: messages, remark and location info with
    non-printable bytes written as `\\ooo`, every other string as it is (up to its first NUL byte);
    optional attributes only when set; locations last-to-first; one `<symbol>` per line of the symbol names -/
def sanitize (f : Finding) : XErr :=
  { attrs := carried (errAttrTable f)
    locs := f.stack.reverse.map (fun l => carried (locAttrTable l))
    syms := (splitSymbols f.symbols).map cstr }

/-- a string `toXML` writes *unsanitised* into an attribute survives: no C0 control byte, valid UTF-8 -/
def attrOK (v : Str) : Bool := (cstr v).all (fun c => 0x20 ≤ c.toNat) && utf8Valid (cstr v)

/-- … into character data: additionally a tab is kept (a CR would be read back as LF) -/
def textOK (v : Str) : Bool := (cstr v).all (fun c => 0x20 ≤ c.toNat || c = '\t') && utf8Valid (cstr v)

/-- the unsanitised strings of a finding (id, guideline, classification, file0, file names, symbol names) are
    plain: printable ASCII or well-formed UTF-8, no control bytes -/
def RawOK (f : Finding) : Bool :=
  attrOK f.id && attrOK f.guideline && attrOK f.classification && attrOK f.file0 &&
  f.stack.all (fun l => attrOK l.file && attrOK l.origFile) &&
  (splitSymbols f.symbols).all textOK

/-! ## conformance to cppcheck-errors.rng (element / attribute grammar; the tables come from the translator) -/

/-- all required names occur, every name is required or optional -/
def namesConform (req opt : List Str) (names : List Str) : Bool :=
  req.all (fun r => names.contains r) && names.all (fun a => (req ++ opt).contains a)

def lookupEl (els : List (Str × List Str × List Str × List Str)) (n : Str) : Option (List Str × List Str × List Str) :=
  (els.find? (fun e => e.1 = n)).map (fun e => e.2)

def elReq (els : List (Str × List Str × List Str × List Str)) (n : Str) : List Str :=
  match lookupEl els n with | some (r, _, _) => r | none => []
def elOpt (els : List (Str × List Str × List Str × List Str)) (n : Str) : List Str :=
  match lookupEl els n with | some (_, o, _) => o | none => []
def elCh (els : List (Str × List Str × List Str × List Str)) (n : Str) : List Str :=
  match lookupEl els n with | some (_, _, c) => c | none => []

/-- `<error>` with its `<location>` / `<symbol>` children against the grammar `els` and the severity choice `sevs`
    (datatype facets — NCName id, integer ranges — are not modelled) -/
def conformsRng (els : List (Str × List Str × List Str × List Str)) (sevs : List Str) (x : XErr) : Bool :=
  (lookupEl els "error".toList).isSome && (lookupEl els "location".toList).isSome && (lookupEl els "symbol".toList).isSome &&
  namesConform (elReq els "error".toList) (elOpt els "error".toList) (x.attrs.map (fun a => a.1)) &&
  (match x.attrs.lookup "severity".toList with
   | some v => sevs.contains v
   | none => false) &&
  (x.locs.isEmpty || (elCh els "error".toList).contains "location".toList) &&
  (x.syms.isEmpty || (elCh els "error".toList).contains "symbol".toList) &&
  x.locs.all (fun la => namesConform (elReq els "location".toList) (elOpt els "location".toList) (la.map (fun a => a.1)))

/-- a finding that uses none of the later additions to the report: no guideline / classification / remark, no
    location whose original file name differs, one of the six user-visible severities -/
def rngPlain (f : Finding) : Bool :=
  f.guideline = [] && f.classification = [] && f.remark = [] && f.stack.all (fun l => l.origFile = l.file) &&
  decide (1 ≤ f.severity) && decide (f.severity ≤ 6)

end Cppcheck.XmlEsc

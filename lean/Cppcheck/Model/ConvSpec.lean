import Cppcheck.Model.ValueTypeConv
/-
C09 — what the LANGUAGE says the type of an expression over arithmetic operands is.

ISO C17 6.3.1.1 (integer conversion rank, integer promotions), 6.3.1.8 (usual arithmetic conversions), 6.5.x (result
type of each operator); ISO C++17 [conv.prom], [expr] p11 (usual arithmetic conversions), [expr.cond], [expr.rel],
[expr.eq], [expr.log.*], [expr.unary.op], [expr.pre.incr], [expr.post.incr], [expr.ass].
Hand-written from the standards; validated against clang (`_Generic` / `decltype` probes with `--target` per data
model) by the thorough tier of the check.

The standards leave the sizes open.  A platform enters only through the answers to "can type S represent all values
of type U?", which for the types at hand are five size comparisons and the signedness of plain `char`: `Shape`.
-/
namespace Cppcheck.ConvSpec
open Cppcheck.ValueTypeConv

/-- the sizes make sense for a C implementation: 8-bit bytes or wider, sizes non-decreasing in rank, `short` and
    `int` ≥ 16 bit, `long` ≥ 32 bit (C17 5.2.4.2.1; the 64 bits of `long long` are not demanded: platforms/pic8.xml
    has a 32-bit `long long`).  Then "S can represent all values of U" is decided by comparing sizes. -/
def sane (P : Plat) : Bool :=
  decide (8 ≤ P.charBit) && decide (1 ≤ P.sizeofShort) && decide (P.sizeofShort ≤ P.sizeofInt) &&
  decide (P.sizeofInt ≤ P.sizeofLong) && decide (P.sizeofLong ≤ P.sizeofLongLong) &&
  decide (16 ≤ P.charBit * P.sizeofShort) && decide (16 ≤ P.charBit * P.sizeofInt) &&
  decide (32 ≤ P.charBit * P.sizeofLong)

/-- the answers of a shape do not contradict each other (`int < long` or `long < long long` iff `int < long long`
    needs sizes that are ordered; every `Plat.shape` of an ordered platform is consistent) -/
def _root_.Cppcheck.ValueTypeConv.Shape.consistent (s : Shape) : Bool :=
  s.intLtLLong == (s.intLtLong || s.longLtLLong) && (!s.shortLtInt || s.charLtInt)

/-! ## 6.3.1.1 integer conversion rank and promotions -/

/-- integer conversion rank (6.3.1.1p1); floating types have none -/
def irank : CT → Nat
  | .bool => 0
  | .char | .schar | .uchar => 1
  | .short | .ushort => 2
  | .int | .uint => 3
  | .long | .ulong => 4
  | .llong | .ullong => 5
  | _ => 0

/-- the type is an unsigned integer type on this platform (`_Bool` is an unsigned integer type, 6.2.5p6) -/
def isUnsigned (s : Shape) : CT → Bool
  | .bool | .uchar | .ushort | .uint | .ulong | .ullong => true
  | .char => s.charUnsigned
  | _ => false

/-- the unsigned integer type corresponding to a signed one of rank ≥ int (6.2.5p6) -/
def toUnsigned : CT → CT
  | .int => .uint
  | .long => .ulong
  | .llong => .ullong
  | t => t

/-- integer promotion (6.3.1.1p2): a type of rank below `int` becomes `int` if `int` can represent all its values,
    else `unsigned int`; every other type is unchanged.  A signed type of lower rank always fits (6.2.5p8); `_Bool`
    has the values 0 and 1. -/
def promote (s : Shape) : CT → CT
  | .bool => .int
  | .schar => .int
  | .short => .int
  | .uchar => if s.charLtInt then .int else .uint
  | .char => if s.charUnsigned && !s.charLtInt then .uint else .int
  | .ushort => if s.shortLtInt then .int else .uint
  | t => t

/-- "the signed type `sg` can represent all values of the unsigned type `us`", for `sg` of higher rank than `us`,
    both of rank ≥ int -/
def signedHolds (s : Shape) (sg us : CT) : Bool :=
  match sg, us with
  | .long, .uint => s.intLtLong
  | .llong, .uint => s.intLtLLong
  | .llong, .ulong => s.longLtLLong
  | _, _ => false

/-- 6.3.1.8 for two PROMOTED integer types (rank ≥ int) -/
def uacPromoted (s : Shape) (a b : CT) : CT :=
  if a = b then a
  else if isUnsigned s a = isUnsigned s b then (if irank a ≥ irank b then a else b)
  else
    let us := if isUnsigned s a then a else b
    let sg := if isUnsigned s a then b else a
    if irank us ≥ irank sg then us
    else if signedHolds s sg us then sg
    else toUnsigned sg

/-- usual arithmetic conversions (6.3.1.8): the common real type of two arithmetic operands -/
def uac (s : Shape) (a b : CT) : CT :=
  if a = .ldouble ∨ b = .ldouble then .ldouble
  else if a = .double ∨ b = .double then .double
  else if a = .float ∨ b = .float then .float
  else uacPromoted s (promote s a) (promote s b)

/-! ## Result type per operator -/

/-- the operand types make `a op b` a valid expression (`%`, bit operators and shifts need integer operands;
    6.5.5p2, 6.5.7p2, 6.5.10–12, 6.5.16.2) -/
def wellTypedBin (op : BinOp) (t1 t2 : CT) : Bool :=
  !op.intOnly || (!t1.isFloating && !t2.isFloating)

/-- `-a`, `!a` take any arithmetic operand, `~a` an integer; `++`/`--` are modelled for non-`bool` operands
    (`++` on `bool` was removed in C++17, `--` on `bool` never existed in C++) -/
def wellTypedUn (op : UnOp) (t : CT) : Bool :=
  match op with
  | .neg | .lnot => true
  | .bnot => !t.isFloating
  | _ => t != .bool

/-- type of `a op b` for lvalues `a : t1`, `b : t2`.  `cpp = false`: C17, `cpp = true`: C++17. -/
def specBin (s : Shape) (cpp : Bool) (op : BinOp) (t1 t2 : CT) : CT :=
  match op.cls with
  | .arith | .bit => uac s t1 t2                     -- 6.5.5p3, 6.5.6p4, 6.5.10p3 …
  | .shift => promote s t1                            -- 6.5.7p3: "the type of the result is that of the promoted left operand"
  | .cmp | .logical => if cpp then .bool else .int    -- 6.5.8p6, 6.5.9p3, 6.5.13p3 / [expr.rel]p1
  | .assign => t1                                     -- 6.5.16p3: the (unqualified) type of the left operand

/-- type of a unary expression on an lvalue `a : t` -/
def specUn (s : Shape) (cpp : Bool) (op : UnOp) (t : CT) : CT :=
  match op with
  | .neg | .bnot => promote s t                       -- 6.5.3.3p3/p4: promoted type
  | .lnot => if cpp then .bool else .int              -- 6.5.3.3p5 / [expr.unary.op]p9
  | _ => t                                            -- 6.5.3.1p2 (`++E` ≡ `E+=1`), 6.5.2.4p2; [expr.pre.incr], [expr.post.incr]

/-- type of `c ? a : b` for lvalues `a : t1`, `b : t2` of arithmetic type.
    C (6.5.15p5): the usual arithmetic conversions, also when the types agree (`short` operands give `int`).
    C++ ([expr.cond]p4/p6): operands of the same type give that type; otherwise the usual arithmetic conversions. -/
def specTernary (s : Shape) (cpp : Bool) (t1 t2 : CT) : CT :=
  if cpp && t1 == t2 then t1 else uac s t1 t2

/-! ## Integer literals: C17 6.4.4.1p5 / C++17 [lex.icon] table 7 -/

/-- the type of an integer literal: the first type of the list selected by base and suffix in which the value can be
    represented; `none`: no type of the list can (the program is ill-formed or uses an extended type).
    `imax lmax llmax` = INT_MAX, LONG_MAX, LLONG_MAX; the unsigned maxima are `2*max+1`. -/
def firstFit (value : Nat) : List (CT × Nat) → Option CT
  | [] => none
  | (t, m) :: r => if value ≤ m then some t else firstFit value r

def litSpec (imax lmax llmax : Nat) (base : Base) (us : Bool) (longs value : Nat) : Option CT :=
  let nondec := base != .dec
  firstFit value (
    (if longs = 0 ∧ us = false then [(CT.int, imax)] else []) ++
    (if longs = 0 ∧ (us = true ∨ nondec = true) then [(CT.uint, 2 * imax + 1)] else []) ++
    (if longs ≤ 1 ∧ us = false then [(CT.long, lmax)] else []) ++
    (if longs ≤ 1 ∧ (us = true ∨ nondec = true) then [(CT.ulong, 2 * lmax + 1)] else []) ++
    (if us = false then [(CT.llong, llmax)] else []) ++
    (if us = true ∨ nondec = true then [(CT.ullong, 2 * llmax + 1)] else []))

/-- K6: an octal literal without `u` whose language type is `unsigned int` / `unsigned long` (it fits the unsigned but
    not the signed type of that rank): the code treats it as a decimal literal (`MathLib::isDec` accepts any digit
    string) and never considers these types -/
def octalAsDecimal (imax lmax : Nat) (base : Base) (us : Bool) (longs value : Nat) : Bool :=
  base == .oct && !us &&
  ((longs == 0 && decide (imax < value) && decide (value ≤ 2 * imax + 1)) ||
   (decide (longs ≤ 1) && decide (lmax < value) && decide (value ≤ 2 * lmax + 1)))

/-- what `declVT` (the tool's representation) makes of a language type; the spec results are compared through it -/
def asVT (t : CT) : VT := declVT t

/-! ## The classes of inputs on which the code AS PINNED leaves the language rules
(hypotheses of the `_partial` theorems; the check classifies every deviation of the implementation with them) -/

/-- K1 (finding F7): after the integer promotions one operand is unsigned, the other is a signed type of HIGHER rank
    that is NOT wider (on a sane platform: of the same size), e.g. `unsigned int` with `long` where
    `sizeof(long) == sizeof(int)`.  6.3.1.8 then gives the unsigned type of the higher rank; the code gives the
    signed one. -/
def sameSizeDifferentRankMixedSign (s : Shape) (t1 t2 : CT) : Bool :=
  let a := promote s t1
  let b := promote s t2
  !t1.isFloating && !t2.isFloating && isUnsigned s a != isUnsigned s b &&
    (let us := if isUnsigned s a then a else b
     let sg := if isUnsigned s a then b else a
     decide (irank us < irank sg) && !signedHolds s sg us)

/-- K2: a type below `int` that `int` cannot hold, so that it promotes to `unsigned int` (`unsigned short` where
    `sizeof(short) == sizeof(int)`); the code promotes everything below `INT` to `signed int` -/
def promotesToUnsigned (s : Shape) (t : CT) : Bool :=
  promote s t == .uint && t != .uint

/-- the type has rank below `int` (it is changed by the integer promotions) -/
def belowInt (t : CT) : Bool := !t.isFloating && decide (irank t < irank .int)

/-- K5 (with `?:`): the two operand types have the same `ValueType::Type` (all that `ValueType::isTypeEqual` compares
    for arithmetic types): `int`/`unsigned int`, `char`/`signed char`/`unsigned char`, … -/
def sameVType (t1 t2 : CT) : Bool := (declVT t1).type == (declVT t2).type

/-- K3: the expression is boolean-valued (`a < b`, `a && b`, `!a` …); the code types it `bool` in both languages,
    C gives `int` -/
def boolValued (op : BinOp) : Bool := op.cls == .cmp || op.cls == .logical

/-! ## Expression trees: the language's type of a nested expression and the deviation class of each node -/

def imaxOf (P : Plat) : Nat := maxValue (P.charBit * P.sizeofInt)
def lmaxOf (P : Plat) : Nat := maxValue (P.charBit * P.sizeofLong)
def llmaxOf (P : Plat) : Nat := maxValue (P.charBit * P.sizeofLongLong)

/-- the type the language gives the expression (6.5.x applied bottom-up).  Meaningful for trees accepted by `ok`; a
    literal without a type counts as `int` here and is rejected by `ok`. -/
def specOf (P : Plat) (cpp : Bool) : Expr → CT
  | .var t => t
  | .lit base us longs value => (litSpec (imaxOf P) (lmaxOf P) (llmaxOf P) base us longs value).getD .int
  | .un op e => specUn P.shape cpp op (specOf P cpp e)
  | .bin op a b => specBin P.shape cpp op (specOf P cpp a) (specOf P cpp b)
  | .tern _ a b => specTernary P.shape cpp (specOf P cpp a) (specOf P cpp b)
  | .cast t _ => t

/-- what is the matter with one node, given the language types of its operands -/
inductive NodeClass
  | fine | illTyped | k1 | k2 | k3 | k4 | k5 | k6
  deriving DecidableEq, Repr, Inhabited

def NodeClass.str : NodeClass → String
  | .fine => "fine" | .illTyped => "illtyped" | .k1 => "k1" | .k2 => "k2" | .k3 => "k3" | .k4 => "k4" | .k5 => "k5" | .k6 => "k6"

/-- UAC-governed node (`+ - * / % & | ^`, `?:` on different `ValueType::Type`s) -/
def uacClass (s : Shape) (t1 t2 : CT) : NodeClass :=
  if promotesToUnsigned s t1 || promotesToUnsigned s t2 then .k2
  else if sameSizeDifferentRankMixedSign s t1 t2 then .k1
  else .fine

def binClass (s : Shape) (cpp : Bool) (op : BinOp) (t1 t2 : CT) : NodeClass :=
  if !wellTypedBin op t1 t2 then .illTyped
  else match op.cls with
    | .arith | .bit => uacClass s t1 t2
    | .shift => if promotesToUnsigned s t1 then .k2 else .fine
    | .cmp | .logical => if cpp then .fine else .k3
    | .assign => .fine

def unClass (s : Shape) (cpp : Bool) (op : UnOp) (t : CT) : NodeClass :=
  if !wellTypedUn op t then .illTyped
  else match op with
    | .neg | .bnot => if promotesToUnsigned s t then .k2 else .fine
    | .lnot => if cpp then .fine else .k3
    | _ => if belowInt t then .k4 else .fine

def ternClass (s : Shape) (cpp : Bool) (t1 t2 : CT) : NodeClass :=
  if sameVType t1 t2 then
    (if t1 == t2 && (cpp || !belowInt t1) then .fine
     else if !cpp && t1 == .bool && t2 == .bool then .k3
     else .k5)
  else uacClass s t1 t2

def litClass (P : Plat) (base : Base) (us : Bool) (longs value : Nat) : NodeClass :=
  if decide (longs > 2) || (litSpec (imaxOf P) (lmaxOf P) (llmaxOf P) base us longs value).isNone then .illTyped
  else if octalAsDecimal (imaxOf P) (lmaxOf P) base us longs value then .k6
  else .fine

def _root_.Cppcheck.ValueTypeConv.Expr.isVar : Expr → Bool
  | .var _ => true
  | _ => false

/-- class of the ROOT node (operands judged by their language types); `++`/`--` and the left side of an assignment
    need a variable (an lvalue) -/
def rootClass (P : Plat) (cpp : Bool) : Expr → NodeClass
  | .var _ => .fine
  | .lit base us longs value => litClass P base us longs value
  | .un op e => if op.isIncDec && !e.isVar then .illTyped else unClass P.shape cpp op (specOf P cpp e)
  | .bin op a b =>
    if op.cls == .assign && !a.isVar then .illTyped
    else binClass P.shape cpp op (specOf P cpp a) (specOf P cpp b)
  | .tern _ a b => ternClass P.shape cpp (specOf P cpp a) (specOf P cpp b)
  | .cast _ _ => .fine

/-- every node of the tree is well-typed and outside K1..K6 -/
def ok (P : Plat) (cpp : Bool) : Expr → Bool
  | .var _ => true
  | .lit base us longs value => litClass P base us longs value == .fine
  | .un op e => rootClass P cpp (.un op e) == .fine && ok P cpp e
  | .bin op a b => rootClass P cpp (.bin op a b) == .fine && ok P cpp a && ok P cpp b
  | .tern c a b => rootClass P cpp (.tern c a b) == .fine && ok P cpp c && ok P cpp a && ok P cpp b
  | .cast _ e => ok P cpp e

/-- every node is well-typed (whatever its deviation class) -/
def wellTypedTree (P : Plat) (cpp : Bool) : Expr → Bool
  | .var _ => true
  | .lit base us longs value => litClass P base us longs value != .illTyped
  | .un op e => rootClass P cpp (.un op e) != .illTyped && wellTypedTree P cpp e
  | .bin op a b => rootClass P cpp (.bin op a b) != .illTyped && wellTypedTree P cpp a && wellTypedTree P cpp b
  | .tern c a b => wellTypedTree P cpp c && wellTypedTree P cpp a && wellTypedTree P cpp b
  | .cast _ e => wellTypedTree P cpp e

/-- the class of the first node (post-order: operands before the operator) that is not `fine` -/
def firstClass (P : Plat) (cpp : Bool) : Expr → NodeClass
  | .var _ => .fine
  | .lit base us longs value => litClass P base us longs value
  | .un op e => match firstClass P cpp e with
    | .fine => rootClass P cpp (.un op e)
    | c => c
  | .bin op a b => match firstClass P cpp a with
    | .fine => (match firstClass P cpp b with
      | .fine => rootClass P cpp (.bin op a b)
      | c => c)
    | c => c
  | .tern c a b => match firstClass P cpp c with
    | .fine => (match firstClass P cpp a with
      | .fine => (match firstClass P cpp b with
        | .fine => rootClass P cpp (.tern c a b)
        | k => k)
      | k => k)
    | k => k
  | .cast _ e => firstClass P cpp e

end Cppcheck.ConvSpec

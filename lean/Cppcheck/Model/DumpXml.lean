/-
C14 — the two value writers of the dump (lib/tokenize.cpp `Tokenizer::dump`, lib/token.cpp `Token::printValueFlow`,
lib/symboldatabase.cpp `SymbolDatabase::printXml`):

  * `toxml`     copy of lib/errorlogger.cpp `ErrorLogger::toxml` (own copy; C26 models the same function in XmlEsc)
  * `idString`  copy of lib/utils.h `id_string_i` (every id / reference attribute is a pointer printed by it)

and the reference reader used as specification of "what an XML parser gets back": `unescape` decodes the
predefined entities and decimal character references of an attribute value (XML 1.0 §4.1, §4.6).

Byte strings are `List Char` with all codes < 256.
-/
namespace Cppcheck.DumpXml

abbrev Str := List Char

/-- what `ErrorLogger::toxml` appends for one input byte -/
def toxmlChar (c : Char) : Str :=
  if c = '<' then ['&', 'l', 't', ';']
  else if c = '>' then ['&', 'g', 't', ';']
  else if c = '&' then ['&', 'a', 'm', 'p', ';']
  else if c = '"' then ['&', 'q', 'u', 'o', 't', ';']
  else if c = '\'' then ['&', 'a', 'p', 'o', 's', ';']
  else if c = Char.ofNat 0 then ['\\', '0']
  else if c = '\n' then ['&', '#', '1', '0', ';']
  else if c = '\t' then ['&', '#', '0', '9', ';']
  else if c = '\r' then ['&', '#', '1', '3', ';']
  else if 32 ≤ c.toNat ∧ c.toNat ≤ 127 then [c]
  else ['x']

/-- `ErrorLogger::toxml` -/
def toxml : Str → Str
  | [] => []
  | c :: r => toxmlChar c ++ toxml r

/-- the entity / character references `toxml` can emit -/
def refs : List Str :=
  [['&', 'l', 't', ';'], ['&', 'g', 't', ';'], ['&', 'a', 'm', 'p', ';'], ['&', 'q', 'u', 'o', 't', ';'], ['&', 'a', 'p', 'o', 's', ';'],
   ['&', '#', '1', '0', ';'], ['&', '#', '0', '9', ';'], ['&', '#', '1', '3', ';']]

/-- a character that may stand for itself in attribute values delimited by either quote and in text content -/
def plainOK (c : Char) : Bool :=
  decide (32 ≤ c.toNat) && decide (c.toNat ≤ 127) && c != '<' && c != '>' && c != '&' && c != '"' && c != '\''

/-- executable scanner for the same grammar: `([^<&"] | Reference)*` restricted to the references above -/
def attrSafeB : Nat → Str → Bool
  | _, [] => true
  | 0, _ :: _ => false
  | f + 1, c :: r =>
    if c = '&' then
      refs.any fun e => e.isPrefixOf (c :: r) && attrSafeB f ((c :: r).drop e.length)
    else plainOK c && attrSafeB f r

def attrSafeBool (s : Str) : Bool := attrSafeB s.length s

/-! ### reference reader -/

def digitVal (c : Char) : Option Nat :=
  if '0' ≤ c ∧ c ≤ '9' then some (c.toNat - 48) else none

def decimal : Str → Option Nat
  | [] => none
  | cs => cs.foldl (fun acc c => match acc, digitVal c with
                                 | some a, some d => some (10 * a + d)
                                 | _, _ => none) (some 0)

/-- the character a reference name (between `&` and `;`) stands for -/
def decodeRef (name : Str) : Option Char :=
  if name = ['l', 't'] then some '<'
  else if name = ['g', 't'] then some '>'
  else if name = ['a', 'm', 'p'] then some '&'
  else if name = ['q', 'u', 'o', 't'] then some '"'
  else if name = ['a', 'p', 'o', 's'] then some '\''
  else match name with
    | '#' :: ds => (decimal ds).map Char.ofNat
    | _ => none

/-- reader state: `none` = plain text, `some acc` = inside a reference, `acc` = the name read so far (reversed) -/
def unescAux : Option Str → Str → Str
  | none, [] => []
  | some acc, [] => '&' :: acc.reverse
  | none, c :: r => if c = '&' then unescAux (some []) r else c :: unescAux none r
  | some acc, c :: r =>
    if c = ';' then
      (match decodeRef acc.reverse with
       | some d => [d]
       | none => '&' :: acc.reverse ++ [';']) ++ unescAux none r
    else unescAux (some (c :: acc)) r

/-- what a conforming parser returns for the attribute value `s` -/
def unescape (s : Str) : Str := unescAux none s

/-- the bytes `toxml` passes through unchanged or as a reference (everything else becomes `x` or `\0`) -/
def roundtripChar (c : Char) : Bool :=
  (decide (32 ≤ c.toNat) && decide (c.toNat ≤ 127)) || c == '\n' || c == '\t' || c == '\r'

/-! ### ids -/

def hexDigit (d : Nat) : Char :=
  if d < 10 then Char.ofNat (48 + d) else Char.ofNat (87 + d)

/-- the `while (l != 0)` loop of `id_string_i`: digits are stored from the end of the buffer -/
def idDigits : Nat → Nat → Str → Str
  | 0, _, acc => acc
  | f + 1, l, acc => if l = 0 then acc else idDigits f (l / 16) (hexDigit (l % 16) :: acc)

/-- `id_string_i(l)`; fuel `l` is more than the number of hex digits of `l` -/
def idString (l : Nat) : Str :=
  if l = 0 then ['0'] else idDigits l l []

/-! ### integers (`std::to_string` of an integral value) -/

def decDigits : Nat → Nat → Str → Str
  | 0, _, acc => acc
  | f + 1, l, acc => if l = 0 then acc else decDigits f (l / 10) (Char.ofNat (48 + l % 10) :: acc)

def natString (l : Nat) : Str := if l = 0 then ['0'] else decDigits l l []

def intString : Int → Str
  | .ofNat n => natString n
  | .negSucc n => '-' :: natString (n + 1)

end Cppcheck.DumpXml

/-
C14 (and C35) — the AST pointer store of `Token`.

Copied from lib/token.cpp `Token::astParent(Token*)`, `Token::astOperand1(Token*)`, `Token::astOperand2(Token*)`
and lib/token.h `Token::astTop()` / `Token::astTop(Token*)` (the `mAstTop` cache written by `TokenList::createAst`).

A token is a natural number; a store gives every token its four pointers (`none` = nullptr).  `n` is the number
of tokens that exist; it is used only as the fuel of the two pointer-chasing loops (`while (tok2)` in
`astParent`, `while (ret->mAstParent)` in `astTop`), which the C++ runs without a bound: the model reports
`Outcome.hang` where the fuel runs out, and `Proofs/AstStore.lean` shows that this never happens from a state
that satisfies the invariant.

`astOperand1` calls `astParent(nullptr)` on the old operand *before* the cycle check of the new one, so an
`InternalError` leaves a partially updated store behind: the model returns the store together with the outcome.
-/
namespace Cppcheck.AstStore

structure Store where
  n : Nat
  parent : Nat → Option Nat
  op1 : Nat → Option Nat
  op2 : Nat → Option Nat
  top : Nat → Option Nat

/-- `n` freshly created tokens: all four pointers null -/
def init (n : Nat) : Store := ⟨n, fun _ => none, fun _ => none, fun _ => none, fun _ => none⟩

/-- pointer assignment `f[i] = v` -/
def upd (f : Nat → Option Nat) (i : Nat) (v : Option Nat) : Nat → Option Nat :=
  fun j => if j = i then v else f j

inductive Outcome where
  | ok      -- the call returned
  | throw   -- InternalError "Internal error. AST cyclic dependency."
  | hang    -- a pointer-chasing loop did not end within `n` steps (the C++ would not return)
deriving DecidableEq, Repr

inductive Walk where
  | clear | cycle | hang
deriving DecidableEq, Repr

/-- `const Token* tok2 = tok; while (tok2) { if (this == tok2) throw …; tok2 = tok2->astParent(); }` with `this = x` -/
def cycleWalk (s : Store) (x : Nat) : Nat → Option Nat → Walk
  | _, none => .clear
  | 0, some _ => .hang
  | f + 1, some c => if c = x then .cycle else cycleWalk s x f (s.parent c)

/-- `Token *ret = this; while (ret->mImpl->mAstParent) ret = ret->mImpl->mAstParent; return ret;` (`none` = fuel exhausted) -/
def topWalk (s : Store) : Nat → Nat → Option Nat
  | f, c =>
    match s.parent c with
    | none => some c
    | some p =>
      match f with
      | 0 => none
      | f + 1 => topWalk s f p

/-- `Token::astTop()`: the cached `mAstTop` if set, else the root of the parent chain -/
def astTop (s : Store) (x : Nat) : Option Nat :=
  match s.top x with
  | some u => some u
  | none => topWalk s s.n x

/-- "Clear children to avoid nodes referenced twice": `x`'s current parent forgets `x` -/
def clearAtParent (s : Store) (x : Nat) : Store :=
  match s.parent x with
  | none => s
  | some p =>
    let s1 := if s.op1 p = some x then { s with op1 := upd s.op1 p none } else s
    if s1.op2 p = some x then { s1 with op2 := upd s1.op2 p none } else s1

/-- `x->astParent(t)` -/
def astParent (s : Store) (x : Nat) (t : Option Nat) : Store × Outcome :=
  match cycleWalk s x s.n t with
  | .hang => (s, .hang)
  | .cycle => (s, .throw)
  | .clear =>
    let s1 := clearAtParent s x
    ({ s1 with parent := upd s1.parent x t }, .ok)

/-- which operand slot -/
inductive Side where
  | one | two
deriving DecidableEq, Repr

def getOp (s : Store) : Side → Nat → Option Nat
  | .one => s.op1
  | .two => s.op2

def setOp (s : Store) (sd : Side) (x : Nat) (v : Option Nat) : Store :=
  match sd with
  | .one => { s with op1 := upd s.op1 x v }
  | .two => { s with op2 := upd s.op2 x v }

/-- first statement of `astOperandN`: `if (mAstOperandN) mAstOperandN->astParent(nullptr);` -/
def detach (sd : Side) (s : Store) (x : Nat) : Store × Outcome :=
  match getOp s sd x with
  | some c => astParent s c none
  | none => (s, .ok)

/-- the rest: `if (tok) { tok = tok->astTop(); tok->astParent(this); }  mAstOperandN = tok;` -/
def attach (sd : Side) (s1 : Store) (x : Nat) (t : Option Nat) : Store × Outcome :=
  match t with
  | none => (setOp s1 sd x none, .ok)
  | some t0 =>
    match astTop s1 t0 with
    | none => (s1, .hang)
    | some u =>
      match astParent s1 u (some x) with
      | (s2, .ok) => (setOp s2 sd x (some u), .ok)
      | r => r

/-- `x->astOperand1(t)` (`sd = one`) / `x->astOperand2(t)` (`sd = two`); the two bodies differ only in the slot -/
def astOperand (sd : Side) (s : Store) (x : Nat) (t : Option Nat) : Store × Outcome :=
  match detach sd s x with
  | (s1, .ok) => attach sd s1 x t
  | r => r

inductive Op where
  | o1 (x : Nat) (t : Option Nat)    -- x->astOperand1(t)
  | o2 (x : Nat) (t : Option Nat)    -- x->astOperand2(t)
  | pa (x : Nat) (t : Option Nat)    -- x->astParent(t)   (public, but called only by the two above)
  | tp (x : Nat) (t : Option Nat)    -- x->astTop(t)      (cache setter)
deriving DecidableEq, Repr

def step (s : Store) : Op → Store × Outcome
  | .o1 x t => astOperand .one s x t
  | .o2 x t => astOperand .two s x t
  | .pa x t => astParent s x t
  | .tp x t => ({ s with top := upd s.top x t }, .ok)

/-- a client: any sequence of setter calls; an `InternalError` is caught and the tokens keep living (as in the harness);
    a hang ends the run -/
def run (s : Store) : List Op → Store × Outcome
  | [] => (s, .ok)
  | o :: r =>
    match step s o with
    | (s1, .hang) => (s1, .hang)
    | (s1, _) => run s1 r

/-- all states of a run, with the outcome of every call (what the harness prints) -/
def trace (s : Store) : List Op → List (Outcome × Store)
  | [] => []
  | o :: r =>
    match step s o with
    | (s1, .hang) => [(.hang, s1)]
    | (s1, oc) => (oc, s1) :: trace s1 r

/-- every token id mentioned by the op exists -/
def Op.inRange (n : Nat) : Op → Bool
  | .o1 x t | .o2 x t | .pa x t | .tp x t => decide (x < n) && (match t with | none => true | some v => decide (v < n))

/-- the op goes through the operand setters (or the cache setter) only — what every caller in lib/ does -/
def Op.viaOperands : Op → Bool
  | .pa _ _ => false
  | _ => true

end Cppcheck.AstStore

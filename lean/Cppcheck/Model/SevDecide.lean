/-
C04 — the shared shape of the value-based checkers: *pick* a value of the operand, *gate* it on the enabled
severities / certainties, *grade* it (error or warning) — copied function by function from

  lib/vfvalue.h          Value::errorSeverity (`!condition && !defaultArg`), isKnown, isInconclusive, isImpossible
  lib/settings.cpp       Settings::isEnabled(const ValueFlow::Value*, bool inconclusiveCheck)
  lib/token.cpp          Token::getValue, getValueLE, getValueGE, getMaxValue (getCompareValue), getInvalidValue
  lib/valueflow.cpp      ValueFlow::findValue, isOutOfBounds / isOutOfBoundsImpl (Point-bound values, see `isOutOfBounds`)
  lib/checkother.cpp     CheckOther::checkZeroDivision / zerodivError, checkNegativeBitwiseShift / negativeBitwiseShiftError
  lib/checknullpointer.cpp   nullPointerByDeRefAndCheck / nullPointerError
  lib/checkbufferoverrun.cpp arrayIndex (one dimension) / arrayIndexError / negativeIndexError
  lib/checktype.cpp      checkTooBigBitwiseShift / tooBigBitwiseShiftError / tooBigSignedBitwiseShiftError,
                         checkIntegerOverflow / integerOverflowError, Check::getMessageId
  lib/checkuninitvar.cpp valueFlowUninit (value selection and gates) / uninitvarError
  lib/checkfunctions.cpp invalidFunctionUsage (the `<valid>` branch) / invalidFunctionArgError

A `Value` carries exactly the fields of `ValueFlow::Value` those functions read.  Everything syntactic the checkers test
before they look at values (operator spelling, operand types, unreachable-branch skipping, `isPointerDeRef`, `getExprUsage`)
is a parameter of the model function or fixed by the harness program (docs/C04.md).
-/
namespace Cppcheck.SevDecide

inductive Kind | possible | known | inconclusive | impossible
  deriving DecidableEq, Repr, Inhabited

/-- `ValueFlow::Value::valueType`, as far as the checkers distinguish it -/
inductive VType | int | uninit | other
  deriving DecidableEq, Repr, Inhabited

inductive UFR | no | outOfMemory | outOfResources | other
  deriving DecidableEq, Repr, Inhabited

inductive Severity | error | warning | portability
  deriving DecidableEq, Repr, Inhabited

inductive Certainty | normal | inconclusive
  deriving DecidableEq, Repr, Inhabited

structure Value where
  vtype : VType
  kind : Kind
  intvalue : Int
  cond : Bool            -- `condition != nullptr`
  defaultArg : Bool
  path : Nat             -- `path` (0 = all paths)
  hasErrorPath : Bool    -- `!errorPath.empty()`
  safe : Bool
  ufr : UFR              -- `unknownFunctionReturn`
  indirect : Int
  deriving DecidableEq, Repr, Inhabited

/-- the subset of `Settings` the anchored functions read -/
structure Opts where
  warning : Bool         -- severity.isEnabled(Severity::warning)
  portability : Bool     -- severity.isEnabled(Severity::portability)
  inconclusive : Bool    -- certainty.isEnabled(Certainty::inconclusive)
  cpp14 : Bool           -- C++ translation unit with standards.cpp >= CPP14 (tooBigSignedBitwiseShiftError)
  deriving DecidableEq, Repr, Inhabited

structure Report where
  id : String
  sev : Severity
  cert : Certainty
  deriving DecidableEq, Repr, Inhabited

def Value.isInt (v : Value) : Bool := v.vtype == .int
def Value.isKnown (v : Value) : Bool := v.kind == .known
def Value.isInconclusive (v : Value) : Bool := v.kind == .inconclusive
def Value.isImpossible (v : Value) : Bool := v.kind == .impossible

/-- vfvalue.h `errorSeverity()` -/
def Value.errorSeverity (v : Value) : Bool := !v.cond && !v.defaultArg

def certOf (b : Bool) : Certainty := if b then .inconclusive else .normal
def sevOf (b : Bool) : Severity := if b then .error else .warning

/-- settings.cpp `Settings::isEnabled(value, inconclusiveCheck)` -/
def isEnabled (o : Opts) (v : Value) (inconclusiveCheck : Bool) : Bool :=
  if !o.warning && (v.cond || v.defaultArg) then false
  else if !o.inconclusive && (inconclusiveCheck || v.isInconclusive) then false
  else true

/-! ### value selection -/

/-- token.cpp `Token::getValue(val)`: the first int value that is not Impossible and equals `val` -/
def getValue (vals : List Value) (n : Int) : Option Value :=
  vals.find? fun v => v.isInt && !v.isImpossible && v.intvalue == n

/-- one candidate update of the loop of `ValueFlow::findValue`:
    `if (!ret || ret->isInconclusive() || (ret->condition && !v.isInconclusive())) ret = &v;` -/
def findStep (ret : Option Value) (v : Value) : Value :=
  match ret with
  | none => v
  | some r => if r.isInconclusive || (r.cond && !v.isInconclusive) then v else r

/-- the loop of valueflow.cpp `ValueFlow::findValue` (also the loop of `Token::getInvalidValue`) -/
def findLoop (pred : Value → Bool) : Option Value → List Value → Option Value
  | ret, [] => ret
  | ret, v :: rest =>
    if pred v then
      if !(findStep ret v).isInconclusive && !(findStep ret v).cond then some (findStep ret v)
      else findLoop pred (some (findStep ret v)) rest
    else findLoop pred ret rest

/-- `ValueFlow::findValue(values, settings, pred)` -/
def findValue (o : Opts) (vals : List Value) (pred : Value → Bool) : Option Value :=
  match findLoop pred none vals with
  | none => none
  | some r =>
    if r.isInconclusive && !o.inconclusive then none
    else if r.cond && !o.warning then none
    else some r

def getValueLE (o : Opts) (vals : List Value) (n : Int) : Option Value :=
  findValue o vals fun v => !v.isImpossible && v.isInt && v.intvalue ≤ n

def getValueGE (o : Opts) (vals : List Value) (n : Int) : Option Value :=
  findValue o vals fun v => !v.isImpossible && v.isInt && v.intvalue ≥ n

/-- `(!ret || compare(value.intvalue, ret->intvalue))` with `std::greater` -/
def maxBetter (ret : Option Value) (v : Value) : Bool :=
  match ret with
  | none => true
  | some r => Decidable.decide (v.intvalue > r.intvalue)

/-- token.cpp `getCompareValue(values, condition, path, std::greater)` = `Token::getMaxValue(condition, path)` -/
def getMaxLoop (condition : Bool) (path : Nat) : Option Value → List Value → Option Value
  | ret, [] => ret
  | ret, v :: rest =>
    if !v.isInt then getMaxLoop condition path ret rest
    else if v.isImpossible then getMaxLoop condition path ret rest
    else if path > 0 && v.path != 0 && v.path != path then getMaxLoop condition path ret rest
    else if maxBetter ret v && (v.cond == condition) then getMaxLoop condition path (some v) rest
    else getMaxLoop condition path ret rest

def getMaxValue (vals : List Value) (condition : Bool) (path : Nat) : Option Value :=
  getMaxLoop condition path none vals

/-- valueflow.cpp `isOutOfBoundsImpl(size, indexTok, condition)` for value lists whose bounds are all `Point`
    (the `Lower`-bound inference after `if (!condition) return {}` needs `bound == Lower` and returns `{}` otherwise) -/
def isOutOfBoundsImpl (size : Int) (vals : List Value) (condition : Bool) : Option Value :=
  match getMaxValue vals condition 0 with
  | none => none
  | some v => if v.intvalue ≥ size then some v else none

/-- valueflow.cpp `ValueFlow::isOutOfBounds(size, indexTok, possible = true)`; `inferCondition("<", indexTok, size)` is not
    Known for the lists of the model's domain (a Known value makes `inferCondition` return an empty value; Point-bound
    Possible / Inconclusive / Impossible values give no Known inference) — the harness tie runs the real `infer` -/
def isOutOfBounds (size : Int) (vals : List Value) : Option Value :=
  match isOutOfBoundsImpl size vals false with
  | some v => some v
  | none => isOutOfBoundsImpl size vals true

/-! ### the checkers -/

/-- checkother.cpp `checkZeroDivision` + `zerodivError` for one `/ % /= %=` token with integral type; `vals` = the values
    of the right operand -/
def zerodiv (o : Opts) (vals : List Value) : List Report :=
  match getValue vals 0 with
  | none => []
  | some v =>
    if isEnabled o v false then
      [⟨if v.cond then "zerodivcond" else "zerodiv", sevOf v.errorSeverity, certOf v.isInconclusive⟩]
    else []

/-- what `CheckNullPointer::isPointerDeRef(tok, unknown)` answered for the pointer token -/
inductive Deref | deref | unknown | no
  deriving DecidableEq, Repr, Inhabited

/-- checknullpointer.cpp `nullPointerByDeRefAndCheck` + `nullPointerError(tok, varname, value, inconclusive)` for one
    nullable pointer token (`isPremiumEnabled("nullPointer")` is false in this build) -/
def nullPointer (o : Opts) (d : Deref) (vals : List Value) : List Report :=
  match getValue vals 0 with
  | none => []
  | some v =>
    if !o.inconclusive && v.isInconclusive then []
    else
      match (match d with | .deref => some v.isInconclusive | .unknown => some true | .no => none) with
      | none => []
      | some inconclusive =>
        if !isEnabled o v inconclusive then []
        else
          let cert := certOf (inconclusive || v.isInconclusive)
          if v.cond then [⟨"nullPointerRedundantCheck", .warning, cert⟩]
          else if v.defaultArg then [⟨"nullPointerDefaultArg", .warning, cert⟩]
          else
            let id := match v.ufr with
              | .outOfMemory => "nullPointerOutOfMemory"
              | .outOfResources => "nullPointerOutOfResources"
              | _ => "nullPointer"
            [⟨id, sevOf v.isKnown, cert⟩]

/-- `ValueFlow::Value::unknown()`: the placeholder for an index position nothing is known about -/
def unknownValue : Value :=
  { vtype := .uninit, kind := .possible, intvalue := 0, cond := false, defaultArg := false, path := 0, hasErrorPath := false,
    safe := false, ufr := .no, indirect := 0 }

/-- token.cpp `Token::getKnownValue(ValueType::INT)`: only the first entry of the list is looked at -/
def getKnownInt : List Value → Option Value
  | v :: _ => if v.isKnown && v.isInt then some v else none
  | [] => none

/-- checkbufferoverrun.cpp `getOverrunIndexValues` for an element access (`isArrayIndex`), dimensions ≥ 1:
    per dimension the out-of-bounds value, else the Known value, else `unknown()`; the flag says whether any dimension overflows -/
def overrunIndexValues : List (Int × List Value) → List Value × Bool
  | [] => ([], false)
  | (size, vals) :: rest =>
    match isOutOfBounds size vals with
    | some v => (v :: (overrunIndexValues rest).1, true)
    | none => ((getKnownInt vals).getD unknownValue :: (overrunIndexValues rest).1, (overrunIndexValues rest).2)

/-- `if (!index || !indexValue.errorPath.empty()) index = &indexValue;` over the vector -/
def pickIndex : Option Value → List Value → Option Value
  | idx, [] => idx
  | none, v :: rest => pickIndex (some v) rest
  | some i, v :: rest => pickIndex (some (if v.hasErrorPath then v else i)) rest

/-- the body shared by `arrayIndexError` / `negativeIndexError`.  `graded = true` is the code of record (43eccce: `error` only when every
    index value has errorSeverity(), the `…Cond` id when any has a condition); `graded = false` is the body before that commit (severity and id
    taken from the one value `index`, F04c) and is kept for the regression theorem only. -/
def indexVectorErrorV (graded : Bool) (o : Opts) (idOk idCond : String) (indexes : List Value) : List Report :=
  if indexes.any (fun v => !v.errorSeverity && !o.warning) then []
  else
    match pickIndex none indexes with
    | none => []
    | some index =>
      if graded then
        [⟨if indexes.any (·.cond) then idCond else idOk, sevOf (indexes.all (·.errorSeverity)), certOf index.isInconclusive⟩]
      else
        [⟨if index.cond then idCond else idOk, sevOf index.errorSeverity, certOf index.isInconclusive⟩]

def indexVectorError : Opts → String → String → List Value → List Report := indexVectorErrorV true

def arrayIndexNV (graded : Bool) (o : Opts) (dims : List (Int × List Value)) : List Report :=
  (if (overrunIndexValues dims).2 then
     indexVectorErrorV graded o "arrayIndexOutOfBounds" "arrayIndexOutOfBoundsCond" (overrunIndexValues dims).1
   else []) ++
  (if dims.any (fun d => (getValueLE o d.2 (-1)).isSome) then
     indexVectorErrorV graded o "negativeIndex" "negativeIndex" (dims.map fun d => (getValueLE o d.2 (-1)).getD unknownValue)
   else [])

/-- checkbufferoverrun.cpp `arrayIndex` for `a[i1]…[ik]` (read or written, not under `&`) on an array with known dimensions ≥ 1;
    per dimension its size and the values of the index token (all with bound Point) -/
def arrayIndexN : Opts → List (Int × List Value) → List Report := arrayIndexNV true

/-- `arrayIndex` with arrayIndexError / negativeIndexError as they were before 43eccce (regression theorem only) -/
def arrayIndexNAsFound : Opts → List (Int × List Value) → List Report := arrayIndexNV false

/-- one-dimensional array -/
def arrayIndex (o : Opts) (size : Int) (vals : List Value) : List Report := arrayIndexN o [(size, vals)]

/-- checktype.cpp `checkTooBigBitwiseShift` for one shift whose promoted left operand has `lhsbits` bits;
    `vals` = the values of the right operand -/
def shiftTooManyBits (o : Opts) (lhsbits : Int) (lhsSigned : Bool) (vals : List Value) : List Report :=
  match (match getValueGE o vals lhsbits with
         | some v => if isEnabled o v false then some v else none
         | none => none) with
  | some v => [⟨"shiftTooManyBits", sevOf v.errorSeverity, certOf v.isInconclusive⟩]
  | none =>
    if lhsSigned then
      match getValueGE o vals (lhsbits - 1) with
      | some v =>
        if isEnabled o v false then
          let sev := if o.cpp14 then Severity.portability else sevOf v.errorSeverity
          if sev == .portability && !o.portability then []
          else [⟨"shiftTooManyBitsSigned", sev, certOf v.isInconclusive⟩]
        else []
      | none => []
    else []

/-- checkother.cpp `checkNegativeBitwiseShift` + `negativeBitwiseShiftError` for one shift outside `?:`;
    `lvals`/`rvals` = the values of the operands, `lSigned`/`rSigned` = their valueType sign is SIGNED; `graded`: see below -/
def shiftNegativeV (graded : Bool) (o : Opts) (lSigned rSigned : Bool) (lvals rvals : List Value) : List Report :=
  if o.portability && lSigned && (getValueLE o lvals (-1)).isSome then [⟨"shiftNegativeLHS", .portability, .normal⟩]
  else if rSigned then
    match getValueLE o rvals (-1) with
    | some v =>
      if graded then
        -- ec2c7f5: `if (mSettings->isEnabled(value, false)) negativeBitwiseShiftError(tok, 2, value);`
        (if isEnabled o v false then [⟨"shiftNegative", sevOf v.errorSeverity, .normal⟩] else [])
      else [⟨"shiftNegative", .error, .normal⟩]
    | none => []
  else []

/-- the code of record (4fa5b48 + ec2c7f5): the picked shift count passes `Settings::isEnabled(value, false)` and is graded by
    errorSeverity() like in every other value-based check -/
def shiftNegative : Opts → Bool → Bool → List Value → List Value → List Report := shiftNegativeV true

/-- negativeBitwiseShiftError before 4fa5b48: `Severity::error` whatever value was picked (F04a; regression theorem only) -/
def shiftNegativeAsFound : Opts → Bool → Bool → List Value → List Value → List Report := shiftNegativeV false

/-- `Check::getMessageId(value, id)` -/
def messageId (v : Value) (id safeId : String) : String :=
  if v.cond then id ++ "Cond" else if v.safe then safeId else id

/-- checktype.cpp `checkIntegerOverflow` + `integerOverflowError` for one arithmetical operator with signed result type of
    `bits` bits (`bits` < 64); `vals` = the values of the operator token, `isShl` = the operator is `<<` -/
def integerOverflow (o : Opts) (bits : Nat) (isShl : Bool) (vals : List Value) : List Report :=
  let maxvalue : Int := 2 ^ (bits - 1) - 1
  match (match getValueGE o vals (maxvalue + 1) with
         | some v => some v
         | none => getValueLE o vals (-maxvalue - 2)) with
  | none => []
  | some v =>
    if !isEnabled o v false then []
    else if isShl && v.intvalue > 0 && v.intvalue < 2 ^ bits then []
    else [⟨messageId v "integerOverflow" "safeIntegerOverflow", sevOf v.errorSeverity, certOf v.isInconclusive⟩]

/-- checkuninitvar.cpp `valueFlowUninit` for one variable token that is *used* (`getExprUsage == Used`), is not an array member,
    not under `&` / void cast, + `uninitvarError(tok, value)` -/
def uninitvar (o : Opts) (vals : List Value) : List Report :=
  match vals.find? (fun v => v.vtype == .uninit) with
  | none => []
  | some v =>
    if v.isInconclusive then []
    else if v.indirect > 1 || v.indirect < 0 then []
    else if !isEnabled o v false then []
    else [⟨"uninitvar", sevOf v.isKnown, certOf v.isInconclusive⟩]

/-- token.cpp `Token::getInvalidValue` (int values; `valid` = `Library::isIntArgValid(ftok, argnr, ·)`) -/
def getInvalidValue (o : Opts) (valid : Int → Bool) (vals : List Value) : Option Value :=
  findValue o vals fun v => !v.isImpossible && v.isInt && !valid v.intvalue

/-- checkfunctions.cpp `invalidFunctionUsage` (`<valid>` branch, non-bool argument) + `invalidFunctionArgError` -/
def invalidFunctionArg (o : Opts) (valid : Int → Bool) (vals : List Value) : List Report :=
  match getInvalidValue o valid vals with
  | none => []
  | some v => [⟨"invalidFunctionArg", sevOf (v.errorSeverity && v.isKnown), certOf v.isInconclusive⟩]

/-! ### `decideSev`: the grading step alone, per checker (what severity a *picked* value gets, `none` = not reported) -/

inductive Checker
  | zerodiv | nullPointer | arrayIndex | negativeIndex | shiftTooManyBits | shiftTooManyBitsSigned | shiftNegative
  | integerOverflow | uninitvar | invalidFunctionArg
  deriving DecidableEq, Repr, Inhabited

def Checker.all : List Checker :=
  [.zerodiv, .nullPointer, .arrayIndex, .negativeIndex, .shiftTooManyBits, .shiftTooManyBitsSigned, .shiftNegative,
   .integerOverflow, .uninitvar, .invalidFunctionArg]

/-- severity of the finding the checker `c` emits for the picked value `v` (`inconclusiveCheck` is only read by nullPointer) -/
def decideSev (c : Checker) (v : Value) (inconclusiveCheck : Bool) (o : Opts) : Option Severity :=
  match c with
  | .zerodiv | .shiftTooManyBits | .integerOverflow =>
    if isEnabled o v false then some (sevOf v.errorSeverity) else none
  | .nullPointer =>
    if !o.inconclusive && v.isInconclusive then none
    else if !isEnabled o v inconclusiveCheck then none
    else if v.cond || v.defaultArg then some .warning
    else some (sevOf v.isKnown)
  | .arrayIndex | .negativeIndex =>      -- one-dimensional access: the index vector is [v]
    if !v.errorSeverity && !o.warning then none else some (sevOf v.errorSeverity)
  | .shiftTooManyBitsSigned =>
    if !isEnabled o v false then none
    else if o.cpp14 then (if o.portability then some .portability else none)
    else some (sevOf v.errorSeverity)
  | .shiftNegative => if isEnabled o v false then some (sevOf v.errorSeverity) else none
  | .uninitvar =>
    if v.isInconclusive then none
    else if !isEnabled o v false then none
    else some (sevOf v.isKnown)
  | .invalidFunctionArg => some (sevOf (v.errorSeverity && v.isKnown))

end Cppcheck.SevDecide

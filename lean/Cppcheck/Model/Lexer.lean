import Cppcheck.Model.Wire
/-
C05 (2) — model of simplecpp's lexer (externals/simplecpp/simplecpp.cpp).

  * `lexRaw`     `TokenList::readfile` up to (not including) the final `combineOperators()` call:
                 source bytes ↦ raw tokens with (line, col); comments are tokens.
  * `combine`    `TokenList::combineOperators`: the in-place pass that glues `1 . 5`, `1e + 3`,
                 `...`, `==`, `&&`, `::`, `->`, `<<=`, `++` … out of single-character tokens by looking at
                 the *columns and lines* of neighbouring tokens.
  * `removeComments`  `TokenList::removeComments`.

Fragment of `readfile` that is modelled (everything else makes `lexRaw` answer `none` = "outside the model",
the correspondence check skips those inputs and counts them):
    white space, newlines (`\n`, `\r`, `\r\n`), `//` and `/* */` comments, names, numbers (with C++14 digit
    separators), single-character operators, string and character literals with `\`-escapes and the
    non-raw encoding prefixes u U L u8 (a raw-string prefix …R is outside), bytes ≥ 0x80 (the list is
    cleared), UTF-8 BOM.
  outside: `#` (preprocessor lines: #line / #file / #error / #include <..>), a backslash outside a literal
    (line splicing), backslash-newline inside a literal or comment, UTF-16 BOM, a digit separator `'`
    as the very last byte (a stream-state quirk of `StdCharBufStream::peek`).
-/
namespace Cppcheck.Lexer
open Cppcheck.Wire

structure RTok where
  str : Str
  line : Nat
  col : Nat
  deriving DecidableEq, Repr, Inhabited

/-! ## Token flags (`Token::flags`, simplecpp.h) — recomputed from the spelling on every `setstr` -/

def isNameChar (c : Char) : Bool := c.isAlphanum || c = '_' || c = '$'

def tName (s : Str) : Bool :=
  match s with
  | [] => false
  | c :: _ => (c.isAlpha || c = '_' || c = '$') && !s.contains '\''

def tComment (s : Str) : Bool :=
  match s with
  | '/' :: c :: _ => c = '/' || c = '*'
  | _ => false

def tNumber (s : Str) : Bool :=
  match s with
  | [] => false
  | c :: r => c.isDigit || ((c = '-' || c = '+') && (match r with | d :: _ => d.isDigit | [] => false))

/-- `Token::op`: the character of a one-character token that is neither name, comment nor number; else NUL -/
def tOp (s : Str) : Char :=
  match s with
  | [c] => if tName s || tComment s || tNumber s then '\x00' else c
  | _ => '\x00'

namespace RTok
def op (t : RTok) : Char := tOp t.str
def number (t : RTok) : Bool := tNumber t.str
def name (t : RTok) : Bool := tName t.str
def comment (t : RTok) : Bool := tComment t.str
def setstr (t : RTok) (s : Str) : RTok := { t with str := s }
end RTok

/-- `Token::isOneOf` -/
def isOneOf (t : RTok) (ops : String) : Bool := t.op ≠ '\x00' && ops.toList.contains t.op

/-- `Token::startsWithOneOf` (token spellings are never empty) -/
def startsWithOneOf (t : RTok) (cs : String) : Bool :=
  match t.str with
  | c :: _ => cs.toList.contains c
  | [] => true

def sameline (a b : RTok) : Bool := a.line = b.line

/-- `Location::adjust`: one column per byte, a newline starts the next line at column 1 -/
def adjust : Nat → Nat → Str → Nat × Nat
  | l, c, [] => (l, c)
  | l, c, x :: r => if x = '\n' then adjust (l + 1) 1 r else adjust l (c + 1) r

/-! ## 1. `readfile` -/

/-- `Stream::readChar` newline handling: `\r\n` and a lone `\r` are read as `\n`; a lone `\r` as the very
    last byte is lost (the look-ahead `get()` hits EOF, the stream goes bad before the `\n` is used) -/
def normCR : List Char → List Char
  | [] => []
  | ['\r'] => []
  | '\r' :: '\n' :: r => '\n' :: normCR r
  | '\r' :: r => '\n' :: normCR r
  | c :: r => c :: normCR r

def consFst (c : Char) (p : Str × List Char) : Str × List Char := (c :: p.1, p.2)

/-- the name/number loop; input starts at the first (name) character.  `none`: digit separator as last byte -/
def scanName (num : Bool) : List Char → Option (Str × List Char)
  | [] => some ([], [])
  | c :: '\'' :: r2 =>
    if isNameChar c then
      if num then
        match r2 with
        | [] => none
        | d :: _ => if isNameChar d then (scanName num r2).map (consFst c) else some ([c], '\'' :: r2)
      else some ([c], '\'' :: r2)
    else some ([], c :: '\'' :: r2)
  | c :: r =>
    if isNameChar c then (scanName num r).map (consFst c)
    else some ([], c :: r)

/-- `//` comment: up to (not including) the newline; a backslash is outside the model -/
def scanLine : List Char → Option (Str × List Char)
  | [] => some ([], [])
  | c :: r =>
    if c = '\n' then some ([], c :: r)
    else if c = '\\' then none
    else (scanLine r).map (consFst c)

/-- `/* */` comment, input starts after the opening `/*`: up to and including the first `*/`
    (the opening `*` cannot close: `currentToken.size() >= 4`), or the rest of the input -/
def scanBlock : List Char → Str × List Char
  | [] => ([], [])
  | '*' :: '/' :: r => (['*', '/'], r)
  | c :: r => consFst c (scanBlock r)

def hasBsNl : Str → Bool
  | [] => false
  | '\\' :: '\n' :: _ => true
  | _ :: r => hasBsNl r

inductive Scan
  | ok (s : Str) (rest : List Char)
  | err                          -- "No pair for character": the token list is cleared
  | unsup                        -- backslash-newline inside the literal
  deriving Repr

def Scan.cons (c : Char) : Scan → Scan
  | .ok s r => .ok (c :: s) r
  | x => x

/-- `readUntil(stream, location, q, q)`, input starts after the opening quote.
    `inEsc`: inside the `do … while (next == '\\')` block, `upd` = `update_ch`. -/
def scanStr (q : Char) : Bool → Bool → List Char → Scan
  | _, _, [] => .err
  | false, _, c :: r =>
    if c = '\n' then .err
    else if c = q then .ok [c] r
    else if c = '\\' then (scanStr q true false r).cons c
    else (scanStr q false false r).cons c
  | true, upd, x :: r =>
    if x = '\n' then .unsup
    else if x = '\\' then (scanStr q true (!upd) r).cons x
    else if upd && x = q then .ok [x] r
    else (scanStr q false false r).cons x

def isStringLiteralPrefix (s : Str) : Bool :=
  s = "u".toList || s = "U".toList || s = "L".toList || s = "u8".toList || s = "R".toList ||
  s = "uR".toList || s = "UR".toList || s = "LR".toList || s = "u8R".toList

/-- encoding prefix taken from the previous token (`cback()`), `[]` = none -/
def litPrefix (acc : List RTok) (line col : Nat) : Str :=
  match acc with
  | b :: _ =>
    if b.name && isStringLiteralPrefix b.str && b.col + b.str.length = col && b.line = line then b.str else []
  | [] => []

/-- main loop of `readfile`; `acc` = tokens so far, newest first.  Fuel: one unit per iteration. -/
def lexLoop : Nat → Nat → Nat → List RTok → List Char → Option (List RTok)
  | 0, _, _, acc, _ => some acc
  | _ + 1, _, _, acc, [] => some acc
  | fuel + 1, line, col, acc, ch :: rest =>
    if ch.toNat ≥ 128 then some []
    else if ch = '\n' then lexLoop fuel (line + 1) 1 acc rest
    else if ch.toNat ≤ 32 then lexLoop fuel line (col + 1) acc rest
    else if ch = '#' || ch = '\\' then none
    else if isNameChar ch then
      match scanName ch.isDigit (ch :: rest) with
      | none => none
      | some (s, rest') =>
        let lc := adjust line col s
        lexLoop fuel lc.1 lc.2 (⟨s, line, col⟩ :: acc) rest'
    else if ch = '/' && rest.head? = some '/' then
      match scanLine (ch :: rest) with
      | none => none
      | some (s, rest') =>
        let lc := adjust line col s
        lexLoop fuel lc.1 lc.2 (⟨s, line, col⟩ :: acc) rest'
    else if ch = '/' && rest.head? = some '*' then
      let sr := scanBlock (rest.drop 1)
      let s := '/' :: '*' :: sr.1
      if hasBsNl s then none
      else
        let lc := adjust line col s
        lexLoop fuel lc.1 lc.2 (⟨s, line, col⟩ :: acc) sr.2
    else if ch = '"' || ch = '\'' then
      let pre := litPrefix acc line col
      if ch = '"' && pre ≠ [] && pre.getLast? = some 'R' then none
      else
        match scanStr ch false false rest with
        | .err => some []
        | .unsup => none
        | .ok s rest' =>
          let cur := ch :: s
          let acc' := if pre = [] then ⟨cur, line, col⟩ :: acc
                      else match acc with
                        | b :: a => b.setstr (pre ++ cur) :: a
                        | [] => []
          let lc := adjust line col cur
          lexLoop fuel lc.1 lc.2 acc' rest'
    else
      lexLoop fuel line (col + 1) (⟨[ch], line, col⟩ :: acc) rest

/-- `Stream::getAndSkipBOM`: UTF-8 BOM skipped, UTF-16 BOM outside the model -/
def skipBOM : List Char → Option (List Char)
  | '\xef' :: '\xbb' :: '\xbf' :: r => some r
  | c :: r => if c.toNat ≥ 254 then none else some (c :: r)
  | [] => some []

/-- raw tokens in source order (before `combineOperators`) -/
def lexRaw (src : List Char) : Option (List RTok) :=
  match skipBOM src with
  | none => none
  | some s =>
    let s := normCR s
    (lexLoop (s.length + 1) 1 1 [] s).map List.reverse

/-! ## 2. `combineOperators` -/

def isHex (s : Str) : Bool := s.length > 2 && (s.take 2 = ['0', 'x'] || s.take 2 = ['0', 'X'])

def isOct (s : Str) : Bool :=
  match s with
  | '0' :: d :: _ => '0' ≤ d && d < '8'
  | _ => false

def isFloatSuffix (t : RTok) : Bool :=
  match t.str with
  | [c] => c = 'f' || c = 'F' || c = 'l' || c = 'L'
  | _ => false

/-- `isAlternativeAndBitandBitor(n)` where `p` is the token before `n` and `r` the tokens after it -/
def isAltAndBitandBitor (p n : RTok) (r : List RTok) : Bool :=
  n.name && (n.str = "and".toList || n.str = "bitand".toList || n.str = "bitor".toList) &&
  (match r with
   | nn :: _ => (p.number || p.name || p.op = ')') && (nn.number || nn.name || nn.op = '(')
   | [] => false)

/-- first loop of the `&=` special case: walk back from the `&` to the token before the unmatched `(` -/
def findOpen : Nat → List RTok → Option (List RTok)
  | _, [] => none
  | lvl, t :: r =>
    if t.op = ')' then findOpen (lvl + 1) r
    else if t.op = '(' then (match lvl with | 0 => some r | l + 1 => findOpen l r)
    else if isOneOf t ";{}" then none
    else findOpen lvl r

/-- second loop: walk back over `name :: * &` to the start of the declaration -/
def declWalk : Bool → List RTok → Bool
  | _, [] => false
  | moved, [s] =>
    if !(s.name || s.str = [':', ':'] || s.op = '*' || s.op = '&') then false else moved && s.name
  | moved, s :: p :: r =>
    if !(s.name || s.str = [':', ':'] || s.op = '*' || s.op = '&') then false
    else if isOneOf p ";{}:" then moved && s.name
    else declWalk true (p :: r)

/-- "don't combine &= if it is a anonymous reference parameter with default value" -/
def isFuncDeclRef (prev : List RTok) : Bool :=
  match findOpen 0 prev with
  | some (f :: r) => f.name && declWalk false (f :: r)
  | _ => false

/-- the ellipsis test: three `.` tokens in consecutive columns (the lines are not compared) -/
def ellTest (tok : RTok) (rest : List RTok) : Bool :=
  match rest with
  | n1 :: n2 :: _ => n1.op = '.' && n1.col = tok.col + 1 && n2.op = '.' && n2.col = tok.col + 2
  | _ => false

/-- "float literals..": a number on the same line in front of the `.`, then a suffix-like token behind it -/
def floatMerge (prev : List RTok) (tok : RTok) (rest : List RTok) : List RTok × RTok × List RTok :=
  match prev with
  | p :: pr =>
    if p.number && sameline p tok && !(p.str.any fun c => c = '.' || c = '_') then
      match rest with
      | n :: r =>
        if sameline (tok.setstr (p.str ++ ['.'])) n &&
            (isFloatSuffix n || (startsWithOneOf n "AaBbCcDdEeFfPp" && !isAltAndBitandBitor (tok.setstr (p.str ++ ['.'])) n r))
        then (pr, tok.setstr (p.str ++ ['.'] ++ n.str), r)
        else (pr, tok.setstr (p.str ++ ['.']), rest)
      | [] => (pr, tok.setstr (p.str ++ ['.']), [])
    else (prev, tok, rest)
  | [] => (prev, tok, rest)

/-- `if (tok->next && tok->next->number)`: a number behind the dot is appended (no position is read) -/
def dotNumber (s : List RTok × RTok × List RTok) : List RTok × RTok × List RTok :=
  match s.2.2 with
  | n :: r => if n.number then (s.1, s.2.1.setstr (s.2.1.str ++ n.str), r) else s
  | [] => s

/-- the `if (tok->op == '.')` block.  Result: (`continue` taken, tokens before, current, tokens after) -/
def dotBlock (prev : List RTok) (tok : RTok) (rest : List RTok) : Bool × List RTok × RTok × List RTok :=
  if tok.op = '.' then
    if ellTest tok rest then (true, prev, tok.setstr ['.', '.', '.'], rest.drop 2)
    else (false, dotNumber (floatMerge prev tok rest))
  else (false, prev, tok, rest)

/-- a number that ends in an exponent marker: decimal `…e`/`…E` (not octal), hexadecimal `…p`/`…P` -/
def expTrig (s : Str) : Bool :=
  let last := s.getLast?.getD '\x00'
  tNumber s && !isOct s && ((!isHex s && (last = 'E' || last = 'e')) || (isHex s && (last = 'P' || last = 'p')))

/-- "match: [0-9.]+E [+-] [0-9]+" (no position is read) -/
def expBlock (tok : RTok) (rest : List RTok) : RTok × List RTok :=
  if expTrig tok.str then
    match rest with
    | n1 :: n2 :: r => if isOneOf n1 "+-" && n2.number then (tok.setstr (tok.str ++ [n1.op] ++ n2.str), r) else (tok, rest)
    | _ => (tok, rest)
  else (tok, rest)

/-- is the first token of the list a number (`tok->previous->number` / `tok->next->next->number`) -/
def headNumber (l : List RTok) : Bool :=
  match l with
  | p :: _ => p.number
  | [] => false

/-- the guard of the operator merges: two one-character operator tokens, same line, consecutive columns -/
def opGuard (tok n : RTok) : Bool :=
  !(tok.op = '\x00' || n.op = '\x00') && sameline tok n && tok.col + 1 = n.col

/-- the operator merges behind the guard (`n` = next token, `r` = the tokens after it); no position is read -/
def opMerge (prev : List RTok) (scopeTop : Bool) (tok n : RTok) (r : List RTok) : RTok × List RTok :=
  if n.op = '=' && isOneOf tok "=!<>+-*/%&|^" then
    if tok.op = '&' && !scopeTop && isFuncDeclRef prev then (tok, n :: r)
    else (tok.setstr (tok.str ++ ['=']), r)
  else if (tok.op = '|' || tok.op = '&') && tok.op = n.op then (tok.setstr (tok.str ++ n.str), r)
  else if tok.op = ':' && n.op = ':' then (tok.setstr (tok.str ++ n.str), r)
  else if tok.op = '-' && n.op = '>' then (tok.setstr (tok.str ++ n.str), r)
  else if (tok.op = '<' || tok.op = '>') && tok.op = n.op then
    match r with
    | e :: e2 :: r2 =>
      if e.op = '=' && e2.op ≠ '=' then (tok.setstr (tok.str ++ n.str ++ e.str), e2 :: r2)
      else (tok.setstr (tok.str ++ n.str), r)
    | _ => (tok.setstr (tok.str ++ n.str), r)
  else if (tok.op = '+' || tok.op = '-') && tok.op = n.op then
    if headNumber prev then (tok, n :: r)
    else if headNumber r then (tok, n :: r)
    else (tok.setstr (tok.str ++ n.str), r)
  else (tok, n :: r)

/-- the adjacency-guarded operator merges -/
def opBlock (prev : List RTok) (scopeTop : Bool) (tok : RTok) (rest : List RTok) : RTok × List RTok :=
  match rest with
  | [] => (tok, rest)
  | n :: r => if opGuard tok n then opMerge prev scopeTop tok n r else (tok, rest)

/-- `prev` skipped back over `;{}()`, then `prev && prev->op == ')'` (which can never hold: `)` is skipped too) -/
def scopeProbe : List RTok → Bool
  | [] => false
  | t :: r => if isOneOf t ";{}()" then scopeProbe r else t.op = ')'

def scopeTop (scope : List Bool) : Bool := scope.head?.getD false

/-- one iteration of the `for` loop for the current token `tok`;
    result: tokens up to and including the (possibly merged) current one, scope stack, tokens after -/
def combineStep (prev : List RTok) (scope : List Bool) (tok : RTok) (rest : List RTok) :
    List RTok × List Bool × List RTok :=
  if tok.op = '{' then
    if scopeTop scope then (tok :: prev, true :: scope, rest)
    else (tok :: prev, scopeProbe prev :: scope, rest)
  else if tok.op = '}' then
    (tok :: prev, if scope.length > 1 then scope.drop 1 else scope, rest)
  else
    let d := dotBlock prev tok rest
    if d.1 then (d.2.2.1 :: d.2.1, scope, d.2.2.2)
    else
      let e := expBlock d.2.2.1 d.2.2.2
      let o := opBlock d.2.1 (scopeTop scope) e.1 e.2
      (o.1 :: d.2.1, scope, o.2)

def combineLoop : Nat → List RTok → List Bool → List RTok → List RTok
  | 0, prev, _, rest => prev.reverse ++ rest
  | _ + 1, prev, _, [] => prev.reverse
  | n + 1, prev, scope, tok :: rest =>
    let s := combineStep prev scope tok rest
    combineLoop n s.1 s.2.1 s.2.2

def combine (ts : List RTok) : List RTok := combineLoop ts.length [] [false] ts

def removeComments (ts : List RTok) : List RTok := ts.filter fun t => !t.comment

/-- what `simplecpp::TokenList(data, size, …)` holds after construction -/
def lexAll (src : List Char) : Option (List RTok) := (lexRaw src).map combine

/-- … and after `removeComments()`: the token stream the preprocessor starts from -/
def tokens (src : List Char) : Option (List RTok) := (lexAll src).map removeComments

/-! ## 3. Layouts: a source text as a sequence of lexical elements

`Elem` is what a source text consists of for `readfile`: white space, newlines, comments, words (names /
numbers), single operator characters and quoted literals.  `renderE` prints a sequence, `placeE` is the
position function (where each token element starts), `elemsOK` the (decidable) well-formedness of a
sequence: every element is lexically complete and no two neighbours fuse. -/

inductive Elem
  | ws (c : Char)                    -- one white-space byte other than a newline
  | nl                               -- `\n`
  | lcom (body : Str)                -- `//` ++ body
  | bcom (body : Str)                -- `/*` ++ body ++ `*/`
  | word (s : Str)                   -- name or number: a run of name characters
  | op (c : Char)                    -- one operator / punctuation byte
  | lit (q : Char) (inner : Str)     -- q ++ inner, `inner` ends with the closing quote
  deriving DecidableEq, Repr, Inhabited

def Elem.text : Elem → Str
  | .ws c => [c]
  | .nl => ['\n']
  | .lcom b => '/' :: '/' :: b
  | .bcom b => '/' :: '*' :: (b ++ ['*', '/'])
  | .word s => s
  | .op c => [c]
  | .lit q i => q :: i

/-- does the element produce a token (comments do) -/
def Elem.isTok : Elem → Bool
  | .ws _ => false
  | .nl => false
  | _ => true

def renderE (es : List Elem) : Str := es.flatMap Elem.text

/-- position function: the tokens of the sequence when its first byte is at (line, col) -/
def placeE : Nat → Nat → List Elem → List RTok
  | _, _, [] => []
  | l, c, e :: r =>
    let lc := adjust l c e.text
    if e.isTok then ⟨e.text, l, c⟩ :: placeE lc.1 lc.2 r else placeE lc.1 lc.2 r

/-- no `*/` inside a block-comment body -/
def noClose : Str → Bool
  | [] => true
  | '*' :: '/' :: _ => false
  | _ :: r => noClose r

def litOK (q : Char) (inner : Str) : Bool :=
  match scanStr q false false inner with
  | .ok s [] => s == inner
  | _ => false

def elemOK : Elem → Bool
  | .ws c => c.toNat ≤ 32 && c != '\n' && c != '\r'
  | .nl => true
  | .lcom b => b.all fun c => c != '\n' && c != '\\' && c != '\r'
  | .bcom b => noClose b && !hasBsNl ('/' :: '*' :: (b ++ ['*', '/'])) && !b.contains '\r'
  | .word s => s != [] && s.all isNameChar && !isStringLiteralPrefix s
  | .op c => c.toNat < 128 && c.toNat > 32 && !isNameChar c && c != '#' && c != '\\' && c != '"' && c != '\''
  | .lit q i => (q = '"' || q = '\'') && litOK q i && !i.contains '\r'

/-- what may follow a word: not a name character, and no `'` behind a number (digit separator) -/
def wordStop (num : Bool) (rest : List Char) : Bool :=
  match rest with
  | [] => true
  | c :: _ => !isNameChar c && !(num && c = '\'')

/-- a `//` comment runs to the end of its line -/
def lineEnd : List Char → Bool
  | [] => true
  | c :: _ => c = '\n'

/-- the element is not changed by the bytes that follow it -/
def startsOK (e : Elem) (rest : List Char) : Bool :=
  match e with
  | .word s => wordStop (match s with | d :: _ => d.isDigit | [] => false) rest
  | .op c => !(c = '/' && (rest.head? = some '/' || rest.head? = some '*'))
  | .lcom _ => lineEnd rest
  | _ => true

def elemsOK : List Elem → Bool
  | [] => true
  | e :: r => elemOK e && startsOK e (renderE r) && elemsOK r

/-! ## 4. Relocation of tokens (what a layout edit does to a token list) -/

/-- move every token to the position `φ` assigns to its old position; spellings are kept -/
def reloc (φ : Nat × Nat → Nat × Nat) (t : RTok) : RTok :=
  { t with line := (φ (t.line, t.col)).1, col := (φ (t.line, t.col)).2 }


def RTok.pos (t : RTok) : Nat × Nat := (t.line, t.col)

/-- positions of the one-character operator tokens -/
def opPositions (ts : List RTok) : List (Nat × Nat) := (ts.filter fun t => t.op != '\x00').map RTok.pos

/-- executable form of the hypothesis on a relocation: `φ` keeps "same line" between any two of the positions
    `ps`, and "next column" between any two of the positions `qs` that share a line -/
def presB (φ : Nat × Nat → Nat × Nat) (ps qs : List (Nat × Nat)) : Bool :=
  (ps.all fun p => ps.all fun q => decide ((φ p).1 = (φ q).1) == decide (p.1 = q.1)) &&
  (qs.all fun p => qs.all fun q => p.1 != q.1 || (decide ((φ p).2 + 1 = (φ q).2) == decide (p.2 + 1 = q.2)))

def dotsLineB (tok : RTok) (rest : List RTok) : Bool :=
  match rest with
  | n1 :: n2 :: _ => !(tok.op = '.' && n1.op = '.' && n2.op = '.') || (tok.line = n1.line && n1.line = n2.line)
  | _ => true

/-- three directly following `.` tokens share a line -/
def dotsOKB : List RTok → Bool
  | [] => true
  | t :: r => dotsLineB t r && dotsOKB r

/-- a relocation given by a finite table (identity elsewhere) -/
def tableMap (tbl : List ((Nat × Nat) × (Nat × Nat))) (p : Nat × Nat) : Nat × Nat :=
  match tbl.lookup p with
  | some q => q
  | none => p

end Cppcheck.Lexer

import Cppcheck.Model.Wire
/-
C07 — executable model of the binary-operator part of `TokenList::createAst` (lib/tokenlist.cpp):

  compileExpression → compileComma → compileAssignTernary → compileLogicOr → … → compileMulDiv →
  compilePointerToElem → (compilePrecedence3: module AstUnary)

and of `Tokenizer::prepareTernaryOpForAST` (lib/tokenize.cpp).

Every binary level of the C++ code has the shape
    lower(tok); while (tok) { if (<tok is one of the level's operators, guard>) compileBinOp(tok, state, lower); else break; }
and compileAssignTernary recurses into itself.  The model is a *generic* parser over a table of such
levels (`Ladder`); the table of the current working tree is extracted by the translator into
`Cppcheck.Gen.AstLadder`.  The operand stack of `AST_state` is a list of (token index, tree); `state.depth`
is an argument (it is restored after every call in the C++ code unless an exception aborts everything).

No fuel: loops are well-founded on the number of remaining tokens; where the C++ code relies on a callee to
advance, the model checks the advance and returns `Err.stuck` otherwise (never happens; the real code has
the analogous "Infinite loop when creating AST" checks).
-/
namespace Cppcheck.AstLadder
open Cppcheck.Wire (Str)

/-- Token alphabet of the model.  The constructor is the classification the real token carries
(`isName`, `varId() != 0`, `isStandardType`, `isLiteral`, `isKeyword`); the four brackets that carry links in
the fragment have their own constructors. -/
inductive Tok where
  | var (s : Str)   -- name with varId ≠ 0
  | num (s : Str)   -- literal (number, char, string, bool)
  | fn  (s : Str)   -- name, varId = 0, not a standard type, not a keyword (function / member name)
  | ty  (s : Str)   -- name with isStandardType
  | kw  (s : Str)   -- keyword that is not a standard type (return, sizeof, new, …)
  | op  (s : Str)   -- every other token (operators, `?`, `:`, `,`, `.`, `;`, `{`, `}` …)
  | lp | rp | lb | rb   -- ( ) [ ]
  deriving DecidableEq, Repr, Inhabited

namespace Tok
def str : Tok → Str
  | var s | num s | fn s | ty s | kw s | op s => s
  | lp => ['('] | rp => [')'] | lb => ['['] | rb => [']']

def isName : Tok → Bool
  | var _ | fn _ | ty _ | kw _ => true
  | _ => false

def isOpener : Tok → Bool
  | lp | lb => true
  | _ => false

def isCloser : Tok → Bool
  | rp | rb => true
  | _ => false
end Tok

/-- `Token::isAssignmentOp()` as a predicate on the spelling (token.cpp, update_property_info) -/
def assignOps : List Str :=
  [['='], ['<','<','='], ['>','>','='], ['+','='], ['-','='], ['*','='], ['/','='], ['%','='], ['&','='], ['^','='], ['|','=']]

def isAssignStr (s : Str) : Bool := assignOps.contains s

/-- `Token::isConstOp()`: arithmetical, logical, comparison and bit operators -/
def constOps : List Str :=
  [['<','<'], ['>','>'], ['+'], ['-'], ['*'], ['/'], ['%'], ['&'], ['|'], ['^'], ['~'], ['&','&'], ['|','|'], ['!'],
   ['=','='], ['!','='], ['<'], ['<','='], ['>'], ['>','='], ['<','=','>']]

def isConstOpStr (s : Str) : Bool := constOps.contains s

def isIncDecStr (s : Str) : Bool := s = ['+','+'] || s = ['-','-']

/-- `Token::isOp()` -/
def isOpStr (s : Str) : Bool := isConstOpStr s || isAssignStr s || isIncDecStr s

def Tok.isIncDec : Tok → Bool
  | .op s => isIncDecStr s
  | _ => false

def Tok.isOp : Tok → Bool
  | .op s => isOpStr s
  | _ => false

/-- syntax tree as cppcheck stores it: a token with astOperand1 / astOperand2 (`nil` = nullptr) -/
inductive Ast where
  | nil
  | node (s : Str) (a b : Ast)
  deriving DecidableEq, Repr, Inhabited

def Ast.leaf (s : Str) : Ast := .node s .nil .nil

/-- operand stack entry: index of the root token (for `precedes`) and the tree hanging below it -/
structure Entry where
  pos : Nat
  ast : Ast
  deriving DecidableEq, Repr

/-- parser state: the token list as a zipper (`pre` = tokens before the current one, nearest first;
`inp` = current token and everything after it; `inp = []` ⇔ `tok == nullptr`) and the operand stack -/
structure St where
  pre : List Tok
  inp : List Tok
  stk : List Entry
  assign : Nat := 0      -- `state.assign` (restored by compileAssignTernary after every nested call, but visible inside them)
  deriving DecidableEq, Repr

inductive Err where
  | depth              -- InternalError "maximum AST depth exceeded"
  | stuck              -- a callee did not advance (model-only guard)
  | outside (c : Nat)  -- the input leaves the modelled fragment (code says where)
  deriving DecidableEq, Repr

abbrev R := Except Err St

namespace St
def pos (st : St) : Nat := st.pre.length

/-- `tok = tok->next()` -/
def next (st : St) : St :=
  match st.inp with
  | [] => st
  | t :: r => { st with pre := t :: st.pre, inp := r }

def adv : Nat → St → St
  | 0, st => st
  | k + 1, st => adv k st.next

def back (st : St) : St :=
  match st.pre with
  | [] => st
  | t :: r => { st with pre := r, inp := t :: st.inp }

def backN : Nat → St → St
  | 0, st => st
  | k + 1, st => backN k st.back

/-- move the cursor to token index `p` -/
def seek (p : Nat) (st : St) : St :=
  if st.pos ≤ p then st.adv (p - st.pos) else st.backN (st.pos - p)

def push (e : Entry) (st : St) : St := { st with stk := e :: st.stk }
end St

/-- the pops and the push at the end of `compileBinOp` -/
def combine2 (s : Str) (pos : Nat) : List Entry → List Entry
  | [] => [⟨pos, .node s .nil .nil⟩]
  | [b] => [⟨pos, .node s .nil b.ast⟩]
  | b :: a :: r => ⟨pos, .node s a.ast b.ast⟩ :: r

/-- `compileBinOp(tok, state, f)` with `f != nullptr`; `st.inp` starts with the operator token -/
def binopWith (M : Nat) (s : Str) (f : Nat → St → R) (d : Nat) (st : St) : R :=
  let p := st.pos
  let st1 := st.next
  if d + 1 > M then .error .depth
  else
    match (if st1.inp.isEmpty then .ok st1 else f (d + 1) st1) with
    | .error e => .error e
    | .ok st2 => .ok { st2 with stk := combine2 s p st2.stk }

/-- `compileBinOp(tok, state, nullptr)`: no advance, no callee -/
def binopNull (s : Str) (st : St) : St :=
  { st with stk := combine2 s st.pos st.stk }

/-- tail of `compileUnaryOp`: the top of the stack becomes operand1 when it does not precede the operator
token, or the operator is `++`/`--` or one of `( { [` -/
def combine1 (s : Str) (pos : Nat) (always : Bool) : List Entry → List Entry
  | [] => [⟨pos, .node s .nil .nil⟩]
  | t :: r => if always || pos < t.pos then ⟨pos, .node s t.ast .nil⟩ :: r else ⟨pos, .node s .nil .nil⟩ :: t :: r

def unopAlways (s : Str) : Bool :=
  isIncDecStr s || s = ['('] || s = ['{'] || s = ['[']

/-- `compileUnaryOp(tok, state, f)` with `f != nullptr` -/
def unopWith (M : Nat) (s : Str) (f : Nat → St → R) (d : Nat) (st : St) : R :=
  let p := st.pos
  let st1 := st.next
  if d + 1 > M then .error .depth
  else
    match (if st1.inp.isEmpty then .ok st1 else f (d + 1) st1) with
    | .error e => .error e
    | .ok st2 => .ok { st2 with stk := combine1 s p (unopAlways s) st2.stk }

/-- `compileUnaryOp(tok, state, nullptr)` for the token at index `p` -/
def unopNull (s : Str) (p : Nat) (st : St) : St :=
  { st with stk := combine1 s p (unopAlways s) st.stk }

/-! ### the level table -/

/-- extra conditions / look-ahead blocks found in the `compile*` loops (closed list; the translator fails on
anything else) -/
inductive Guard where
  | always       -- no extra condition
  | unusedTok    -- `!tok->astOperand1()`: the token was not consumed as a unary operator before (always true: the model never revisits a token)
  | notLinked    -- `!tok->link()`: not a template bracket (always true: the alphabet has no linked `<`)
  | mul          -- compileMulDiv: `*` with `!astOperand1 && !isQualifier` and the `* [*,)]` pointer-declarator look-ahead
  | amp          -- compileAnd: `&` with `!astOperand1 && !isQualifier` and the rvalue-reference look-ahead
  | ampamp       -- compileLogicAnd: `&&` with `!isQualifier` and the rvalue-reference look-ahead
  | commaBrace   -- compileComma: `, }` is skipped
  | dotStar      -- compilePointerToElem: `.` immediately followed by `*`
  deriving DecidableEq, Repr

inductive Kind where
  | left            -- lower(); while (op) compileBinOp(tok, state, lower)
  | assignTernary   -- compileAssignTernary
  deriving DecidableEq, Repr

structure Level where
  name : Str                     -- the C++ function
  callee : Str                   -- the function it calls first / passes to compileBinOp
  ops : List (Str × Guard)
  kind : Kind
  deriving DecidableEq, Repr

structure Ladder where
  maxDepth : Nat                 -- AST_MAX_DEPTH
  entry : Str                    -- what compileExpression calls
  levels : List Level            -- lowest precedence first
  bottom : Str                   -- callee of the last level
  declVarGuard : Bool := false   -- skipDecl returns at once when the name behind `(` is a variable (varId != 0)
  deriving DecidableEq, Repr

/-- the callee chain really is a ladder -/
def chainOK : Str → List Level → Str → Bool
  | cur, [], bot => cur = bot
  | cur, lv :: r, bot => lv.name = cur && chainOK lv.callee r bot

def Ladder.chain (L : Ladder) : Bool := chainOK L.entry L.levels L.bottom

inductive Step where
  | stop
  | take (s : Str)
  | jump (k : Nat)     -- `tok = tok2; break;`
  deriving DecidableEq, Repr

/-- `isQualifier(tok)`: `while (Token::Match(tok, "&|&&|*")) tok = tok->next(); return Token::Match(tok, "{|;");` -/
def isQualifier : List Tok → Bool
  | [] => false
  | .op s :: r =>
    if s = ['&'] || s = ['&','&'] || s = ['*'] then isQualifier r
    else s = ['{'] || s = [';']
  | _ => false

def isStarStop (t : Tok) : Bool := t = .op ['>'] || t = .rp || t = .op [',']

/-- `while (tok2->next() && tok2->str() == "*") tok2 = tok2->next(); if (Token::Match(tok2, "[>),]")) …`:
offset of `tok2` when the match succeeds -/
def starGo : List Tok → Nat → Option Nat
  | [], _ => none
  | [t], k => if isStarStop t then some k else none
  | t :: t' :: r, k =>
    if t = .op ['*'] then starGo (t' :: r) (k + 1)
    else if isStarStop t then some k else none

/-- the `* [*,)]` look-ahead of compileMulDiv / compilePrecedence3: `rest` = tokens after the `*`.
Returns the offset (from the `*`) of the token to jump to. -/
def starLook (rest : List Tok) : Option Nat :=
  match rest with
  | [] => none
  | t :: _ =>
    if t = .op ['*'] || t = .op [','] || t = .rp then starGo rest 1 else none

def Guard.eval (cpp : Bool) (g : Guard) (s : Str) (rest : List Tok) : Step :=
  match g with
  | .always | .unusedTok | .notLinked => .take s
  | .mul =>
    if isQualifier (.op s :: rest) then .stop
    else match starLook rest with
      | some k => .jump k
      | none => .take s
  | .amp =>
    if isQualifier (.op s :: rest) then .stop
    else match rest with
      | [] => .stop
      | t :: r =>
        -- tok2 = tok->next(); if (tok2->str() == "&") tok2 = tok2->next();
        let (t2, k) : Option Tok × Nat := if t = .op ['&'] then (r.head?, 2) else (some t, 1)
        if cpp && (t2 = some (.op [',']) || t2 = some .rp) then .jump k else .take s
  | .ampamp =>
    if isQualifier (.op s :: rest) then .stop
    else match rest with
      | [] => .stop
      | t :: _ => if cpp && (t = .op [','] || t = .rp) then .jump 1 else .take s
  | .commaBrace => if rest.head? = some (.op ['}']) then .jump 1 else .take s
  | .dotStar => if rest.head? = some (.op ['*']) then .take s else .stop

def lookupOp (s : Str) : List (Str × Guard) → Option Guard
  | [] => none
  | (o, g) :: r => if o = s then some g else lookupOp s r

/-- does the current token continue the loop of this level? -/
def Level.step (cpp : Bool) (lv : Level) (inp : List Tok) : Step :=
  match inp with
  | .op s :: rest =>
    match lookupOp s lv.ops with
    | none => .stop
    | some g => g.eval cpp s rest
  | _ => .stop

/-- `while (tok) { if (matches) compileBinOp(tok, state, lower); else break; }` -/
def loopLeft (M : Nat) (cpp : Bool) (lv : Level) (lower : Nat → St → R) (d : Nat) (st : St) : R :=
  match lv.step cpp st.inp with
  | .stop => .ok st
  | .jump k => .ok (st.adv k)
  | .take s =>
    match binopWith M s lower d st with
    | .error e => .error e
    | .ok st2 =>
      if st2.inp.length < st.inp.length then loopLeft M cpp lv lower d st2 else .error .stuck
termination_by st.inp.length

/-- compileAssignTernary.  `entry = true`: the whole function; `entry = false`: its `while` loop. -/
def assignTern (M : Nat) (cpp : Bool) (lv : Level) (lower : Nat → St → R) (entry : Bool) (d : Nat) (st : St) : R :=
  if entry then
    match lower d st with
    | .error e => .error e
    | .ok st1 => if st1.inp.length ≤ st.inp.length then assignTern M cpp lv lower false d st1 else .error .stuck
  else
    match st.inp with
    | [] => .ok st
    | t :: rest =>
      let self : Nat → St → R := fun d' st' =>
        if st'.inp.length < st.inp.length then assignTern M cpp lv lower true d' st' else .error .stuck
      -- `after` = what the C++ code does to state.assign behind the compileBinOp call
      let continue_ (after : Nat → Nat) (r : R) : R :=
        match r with
        | .error e => .error e
        | .ok st2 =>
          if st2.inp.length < st.inp.length then assignTern M cpp lv lower false d { st2 with assign := after st2.assign }
          else .error .stuck
      match lv.step cpp st.inp with
      | .take s =>
        -- state.assign++; compileBinOp(..); if (state.assign > 0) state.assign--;
        continue_ (fun a => a - 1) (binopWith M s self d { st with assign := st.assign + 1 })
      | .jump k => .ok (st.adv k)
      | .stop =>
        if t = .op ['?'] then
          if rest.head? = some (.op [':']) then .error (.outside 1)   -- GNU `a ?: b` pushes a null operand
          else
            -- const int assign = state.assign; state.assign = 0; compileBinOp(..); state.assign = assign;
            continue_ (fun _ => st.assign) (binopWith M ['?'] self d { st with assign := 0 })
        else if t = .op [':'] then
          -- inCase / stopAtColon are false outside `case`/`return`/`throw` (keywords are outside the fragment)
          if st.assign > 0 then .ok st
          else continue_ id (binopWith M [':'] self d st)
        else .ok st
termination_by (st.inp.length, if entry then 1 else 0)
decreasing_by
  all_goals simp_wf
  all_goals simp only [Prod.lex_def]
  all_goals (try simp_all)
  all_goals omega

/-- the ladder below the level list `ls`, bottoming out in `prim` (compilePrecedence3) -/
def ladder (M : Nat) (cpp : Bool) (prim : Nat → St → R) : List Level → Nat → St → R
  | [], d, st => prim d st
  | lv :: ls, d, st =>
    match lv.kind with
    | .left =>
      match ladder M cpp prim ls d st with
      | .error e => .error e
      | .ok st1 => loopLeft M cpp lv (ladder M cpp prim ls) d st1
    | .assignTernary => assignTern M cpp lv (ladder M cpp prim ls) true d st

/-- offset of the bracket that closes the group whose inside starts at the head of the list
(`tok->link()`; createLinks guarantees proper nesting, so one counter for both bracket kinds is enough) -/
def closeOff : Nat → List Tok → Option Nat
  | _, [] => none
  | d, t :: r =>
    if t.isOpener then (closeOff (d + 1) r).map (· + 1)
    else if t.isCloser then
      match d with
      | 0 => some 0
      | d' + 1 => (closeOff d' r).map (· + 1)
    else (closeOff d r).map (· + 1)

/-- the same backwards: the list is the reversed prefix, its head the token just before a closer -/
def openOff : Nat → List Tok → Option Nat
  | _, [] => none
  | d, t :: r =>
    if t.isCloser then (openOff (d + 1) r).map (· + 1)
    else if t.isOpener then
      match d with
      | 0 => some 0
      | d' + 1 => (openOff d' r).map (· + 1)
    else (openOff d r).map (· + 1)

/-! ### Tokenizer::prepareTernaryOpForAST -/

/-- the inner `for (; tok2; tok2 = tok2->next())` loop, started behind a `?`.  `pd` > 0 while inside a linked
bracket pair that the C++ loop jumps over with `tok2 = tok2->link()`.  Result: offset of the `:` the loop
stopped at together with `parenthesesNeeded`, or `none` when it ended anywhere else. -/
def scanQ : Nat → Nat → Bool → Nat → List Tok → Option (Nat × Bool)
  | _, _, _, _, [] => none
  | pd + 1, depth, needed, off, t :: r =>
    if t.isOpener then scanQ (pd + 2) depth needed (off + 1) r
    else if t.isCloser then scanQ pd depth needed (off + 1) r
    else scanQ (pd + 1) depth needed (off + 1) r
  | 0, depth, needed, off, t :: r =>
    if t.isOpener then scanQ 1 depth needed (off + 1) r
    else if t = .op [':'] then
      match depth with
      | 0 => some (off, needed)
      | dp + 1 => scanQ 0 dp needed (off + 1) r
    else if t = .op [';'] || t.isCloser then none
    else if t = .op [','] then scanQ 0 depth true (off + 1) r
    else if t = .op ['<'] then scanQ 0 depth true (off + 1) r
    else if t = .op ['?'] then scanQ 0 (depth + 1) true (off + 1) r
    else scanQ 0 depth needed (off + 1) r

def insertAt (k : Nat) (x : Tok) (l : List Tok) : List Tok := l.take k ++ x :: l.drop k

def countQ : List Tok → Nat
  | [] => 0
  | t :: r => (if t = .op ['?'] then 1 else 0) + countQ r

theorem countQ_append (a b : List Tok) : countQ (a ++ b) = countQ a + countQ b := by
  induction a with
  | nil => simp [countQ]
  | cons t r ih => simp [countQ, ih]; omega

theorem countQ_insertAt_rp (k : Nat) (l : List Tok) : countQ (insertAt k .rp l) = countQ l := by
  unfold insertAt
  rw [countQ_append]
  have : countQ (Tok.rp :: l.drop k) = countQ (l.drop k) := by simp [countQ]
  rw [this, ← countQ_append, List.take_append_drop]

/-- the outer loop: at every `?` whose scan ends at its `:` with `parenthesesNeeded`, a `(` is inserted behind
the `?` and a `)` in front of the `:`; the walk continues with the inserted `(` -/
def prep : List Tok → List Tok
  | [] => []
  | t :: r =>
    if t = .op ['?'] then
      match scanQ 0 0 false 0 r with
      | some (k, true) => t :: prep (.lp :: insertAt k .rp r)
      | _ => t :: prep r
    else t :: prep r
termination_by l => 3 * countQ l + l.length
decreasing_by
  all_goals simp_wf
  · rename_i h
    have h1 : countQ (Tok.lp :: insertAt k Tok.rp r) = countQ r := by
      simp [countQ, countQ_insertAt_rp]
    have h2 : (insertAt k Tok.rp r).length = r.length + 1 := by
      simp [insertAt]; omega
    rw [h1]
    simp [countQ, h, h2]
    omega
  · simp [countQ]; omega
  · simp [countQ]; omega

/-! ### specification side: expression trees of the C/C++ operator grammar -/

/-- parse tree of the expression grammar (C17 6.5 / C++17 [expr]); `paren` is an explicit pair of
parentheses, so one tree = one token string -/
inductive PExpr where
  | var (s : Str)
  | num (s : Str)
  | paren (e : PExpr)
  | bin (op : Str) (l r : PExpr)                      -- all binary levels incl. assignment and comma
  | tern (c t e : PExpr)                              -- c ? t : e
  | pre (op : Str) (e : PExpr)                        -- prefix - ! ~ * & ++ --
  | post (op : Str) (e : PExpr)                       -- postfix ++ --
  | cast (ty : List Str) (stars : Nat) (e : PExpr)    -- ( int * ) e
  | index (a i : PExpr)                               -- a [ i ]
  | member (a : PExpr) (m : Str)                      -- a . m   (the tokenizer turns -> into .)
  | call0 (f : Str) (fvar : Bool)                     -- f ( )
  | call (f : Str) (fvar : Bool) (args : PExpr)       -- f ( a , b )   args = the comma tree
  deriving DecidableEq, Repr, Inhabited

namespace PExpr

def fname (f : Str) (fvar : Bool) : Tok := if fvar then .var f else .fn f

/-- the token string of a tree -/
def print : PExpr → List Tok
  | var s => [.var s]
  | num s => [.num s]
  | paren e => .lp :: (print e ++ [.rp])
  | bin op l r => print l ++ .op op :: print r
  | tern c t e => print c ++ .op ['?'] :: (print t ++ .op [':'] :: print e)
  | pre op e => .op op :: print e
  | post op e => print e ++ [.op op]
  | cast ty k e => .lp :: (ty.map Tok.ty ++ (List.replicate k (.op ['*']) ++ .rp :: print e))
  | index a i => print a ++ .lb :: (print i ++ [.rb])
  | member a m => print a ++ [.op ['.'], .fn m]
  | call0 f fv => [fname f fv, .lp, .rp]
  | call f fv a => fname f fv :: .lp :: (print a ++ [.rp])

/-- the tree cppcheck is expected to store: operators are nodes with the grammar's operands;
`?:` is `?`(c, `:`(t, e)); a call is `(`(f, args); a cast is `(`(operand); parentheses leave no node -/
def toAst : PExpr → Ast
  | var s => .leaf s
  | num s => .leaf s
  | paren e => toAst e
  | bin op l r => .node op (toAst l) (toAst r)
  | tern c t e => .node ['?'] (toAst c) (.node [':'] (toAst t) (toAst e))
  | pre op e => .node op (toAst e) .nil
  | post op e => .node op (toAst e) .nil
  | cast _ _ e => .node ['('] (toAst e) .nil
  | index a i => .node ['['] (toAst a) (toAst i)
  | member a m => .node ['.'] (toAst a) (.leaf m)
  | call0 f _ => .node ['('] (.leaf f) .nil
  | call f _ a => .node ['('] (.leaf f) (toAst a)

/-- offset of the root token inside `print e` -/
def rootOff : PExpr → Nat
  | var _ => 0
  | num _ => 0
  | paren e => 1 + rootOff e
  | bin _ l _ => (print l).length
  | tern c _ _ => (print c).length
  | pre _ _ => 0
  | post _ e => (print e).length
  | cast _ _ _ => 0
  | index a _ => (print a).length
  | member a _ => (print a).length
  | call0 _ _ => 1
  | call _ _ _ => 1

/-- nesting of compileBinOp / compileUnaryOp callbacks needed to parse the tree (`state.depth`) -/
def need : PExpr → Nat
  | var _ => 0
  | num _ => 0
  | paren e => need e
  | bin _ l r => max (need l) (need r + 1)
  | tern c t e => max (need c) (max (need t + 1) (need e + 2))
  | pre _ e => need e + 1
  | post _ e => max (need e) 1
  | cast _ _ e => need e
  | index a i => max (need a) (need i + 1)
  | member a _ => max (need a) 1
  | call0 _ _ => 0
  | call _ _ a => need a

end PExpr

/-! #### which trees belong to the grammar of a level table -/

def levelHas (lv : Level) (s : Str) : Bool := (lookupOp s lv.ops).isSome

/-- first level (from the top of `ls`) that has operator `s`, with the levels below it -/
def findLevel (s : Str) : List Level → Option (Level × List Level)
  | [] => none
  | lv :: r => if levelHas lv s then some (lv, r) else findLevel s r

def findTern : List Level → Option (Level × List Level)
  | [] => none
  | lv :: r => if lv.kind = .assignTernary then some (lv, r) else findTern r

/-- guards under which an operator is an ordinary binary operator of the expression grammar -/
def Guard.binary : Guard → Bool
  | .dotStar => false
  | _ => true

namespace PExpr

/-- no `,` `<` `?` outside brackets: prepareTernaryOpForAST leaves such a ternary middle alone -/
def topFree : PExpr → Bool
  | var _ => true
  | num _ => true
  | paren _ => true
  | bin op l r => op != [','] && op != ['<'] && op != ['?'] && topFree l && topFree r
  | tern _ _ _ => false
  | pre op e => op != [','] && op != ['<'] && op != ['?'] && topFree e
  | post op e => op != [','] && op != ['<'] && op != ['?'] && topFree e
  | cast _ _ e => topFree e
  | index a _ => topFree a
  | member a _ => topFree a
  | call0 _ _ => true
  | call _ _ _ => true

/-- what prepareTernaryOpForAST does, on trees: a middle operand that is not `topFree` gets parentheses -/
def prepE : PExpr → PExpr
  | var s => var s
  | num s => num s
  | paren e => paren (prepE e)
  | bin op l r => bin op (prepE l) (prepE r)
  | tern c t e => tern (prepE c) (if topFree t then prepE t else paren (prepE t)) (prepE e)
  | pre op e => pre op (prepE e)
  | post op e => post op (prepE e)
  | cast ty k e => cast ty k (prepE e)
  | index a i => index (prepE a) (prepE i)
  | member a m => member (prepE a) m
  | call0 f v => call0 f v
  | call f v a => call f v (prepE a)

/-- operator spellings that are not expression operators of any level (`? : ;`) do not occur as operators -/
def okOpStr (s : Str) : Bool := s != ['?'] && s != [':'] && s != [';']

def plain : PExpr → Bool
  | var _ => true
  | num _ => true
  | paren e => plain e
  | bin op l r => okOpStr op && plain l && plain r
  | tern c t e => plain c && plain t && plain e
  | pre op e => okOpStr op && plain e
  | post op e => okOpStr op && plain e
  | cast _ _ e => plain e
  | index a i => plain a && plain i
  | member a _ => plain a
  | call0 _ _ => true
  | call _ _ a => plain a

end PExpr

/-- the prefix operators covered by the theorems (`++`/`--`, casts: model and correspondence only) -/
def plainPrefix (s : Str) : Bool := s = ['-'] || s = ['!'] || s = ['~'] || s = ['*'] || s = ['&']

/-- `e` is derivable from the non-terminal of the level list `ls` (top of `ls` = the level itself, `[]` = the
operand level).  `pp = false`: the expression grammar as such (the middle operand of `?:` is a full
expression).  `pp = true`: token strings after prepareTernaryOpForAST (the middle operand is `topFree`). -/
def Gram (L : Ladder) (pp : Bool) : List Level → PExpr → Bool
  | _, .var _ => true
  | _, .num _ => true
  | _, .paren e => Gram L pp L.levels e
  | ls, .bin op l r =>
    match findLevel op ls with
    | none => false
    | some (lv, below) =>
      (match lookupOp op lv.ops with | some g => g.binary | none => false) &&
      (match lv.kind with
       | .left => Gram L pp (lv :: below) l && Gram L pp below r
       | .assignTernary => Gram L pp below l && Gram L pp (lv :: below) r)
  | ls, .tern c t e =>
    match findTern ls with
    | none => false
    | some (lv, below) =>
      Gram L pp below c &&
      (if pp then t.topFree && Gram L pp (lv :: below) t else Gram L pp L.levels t) &&
      Gram L pp (lv :: below) e
  | _, .pre op e => plainPrefix op && Gram L pp [] e        -- unary-expression: - ! ~ * & applied to a cast-expression
  | _, _ => false     -- rest of the second stage: modelled and correspondence-checked only

end Cppcheck.AstLadder

import Cppcheck.Model.Wire
/-
C36 — model of htmlreport/cppcheck-htmlreport: html_escape, the version-2 result handler, grouping
by file, the index rows (exact inner HTML of every `<tr>` of the summary table), and of each per-file
page the menu and the annotations written behind the source lines.  Every piece of output text is a list
of `Piece`s: fixed template text, or a string of the results file behind one of the encoders.
Strings are `List Char` (python `str`, arbitrary code points).
-/
namespace Cppcheck.Html

abbrev Str := List Char

/-- `xml.sax.saxutils.escape(text, {'"': '&quot;', "'": '&apos;'})` -/
def escChar : Char → Str
  | '&' => "&amp;".toList
  | '<' => "&lt;".toList
  | '>' => "&gt;".toList
  | '"' => "&quot;".toList
  | '\'' => "&apos;".toList
  | c => [c]

def htmlEscape (s : Str) : Str := s.flatMap escChar

/-- what an HTML parser makes of the escaped text (the five entities back to characters) -/
def unescape : Str → Str
  | '&' :: 'a' :: 'm' :: 'p' :: ';' :: r => '&' :: unescape r
  | '&' :: 'l' :: 't' :: ';' :: r => '<' :: unescape r
  | '&' :: 'g' :: 't' :: ';' :: r => '>' :: unescape r
  | '&' :: 'q' :: 'u' :: 'o' :: 't' :: ';' :: r => '"' :: unescape r
  | '&' :: 'a' :: 'p' :: 'o' :: 's' :: ';' :: r => '\'' :: unescape r
  | c :: r => c :: unescape r
  | [] => []

structure Loc where
  file : Str
  line : Nat
  info : Option Str
  deriving DecidableEq, Repr, Inhabited

/-- one `<error>` element of a version-2 results file -/
structure Err where
  id : Str
  sev : Str
  msg : Str
  verbose : Option Str
  inconclusive : Option Str
  cwe : Option Str
  cls : Str
  guideline : Str
  locs : List Loc
  deriving DecidableEq, Repr, Inhabited

/-- `handleVersion2`: file and line of a finding are those of its first `<location>` -/
def Err.file (e : Err) : Str := match e.locs with | [] => [] | l :: _ => l.file
def Err.line (e : Err) : Nat := match e.locs with | [] => 0 | l :: _ => l.line

structure Group where
  file : Str
  no : Nat                 -- `str(file_no) + '.html'`
  errs : List Err
  deriving Repr, Inhabited

/-- `files[filename]['errors'].append(error)`, new file names get the next page number -/
def addErr (gs : List Group) (n : Nat) (e : Err) : List Group :=
  match gs with
  | [] => [⟨e.file, n, [e]⟩]
  | g :: r => if g.file = e.file then { g with errs := g.errs ++ [e] } :: r else g :: addErr r n e

def groupsAux : List Err → List Group → List Group
  | [], gs => gs
  | e :: es, gs => groupsAux es (addErr gs gs.length e)

def groups (es : List Err) : List Group := groupsAux es []

/-- python's `<=` on `str` (code point order, prefix first) -/
def strLe : Str → Str → Bool
  | [], _ => true
  | _ :: _, [] => false
  | a :: r, b :: s => if a.toNat < b.toNat then true else if b.toNat < a.toNat then false else strLe r s

/-- stable insertion sort (python's `sorted` is stable) -/
def insertFront {α} (lt : α → α → Bool) (x : α) : List α → List α
  | [] => [x]
  | y :: r => if lt y x then y :: insertFront lt x r else x :: y :: r

/-- x goes in front of the first element of the sorted tail that is not strictly smaller -/
def stableSort {α} (lt : α → α → Bool) : List α → List α
  | [] => []
  | x :: r => insertFront lt x (stableSort lt r)

def strLt (a b : Str) : Bool := strLe a b && a != b

def sortedGroups (es : List Err) : List Group := stableSort (fun a b => strLt a.file b.file) (groups es)

def sortedErrs (g : Group) : List Err := stableSort (fun a b => a.line < b.line) g.errs

def natStr (n : Nat) : Str := (toString n).toList

def endsWithStar (s : Str) : Bool := s.getLast? = some '*'

/-- `to_css_selector` -/
def cssOk (c : Char) : Bool :=
  c = '-' || c = '_' || ('a' ≤ c && c ≤ 'z') || ('A' ≤ c && c ≤ 'Z') || ('0' ≤ c && c ≤ '9') ||
    (0xA0 ≤ c.toNat && c.toNat ≤ 0xFFFF)

def isDigit (c : Char) : Bool := '0' ≤ c && c ≤ '9'

def toCssSelector (tag : Str) : Str :=
  let v := tag.map fun c => if cssOk c then c else '-'
  let bad := match v with
    | c :: _ => isDigit c || (c = '-' && (match v.drop 1 with | d :: _ => isDigit d || d = '-' | [] => false))
    | [] => false
  if bad then "cpp".toList ++ v else v

/-! ### output text = fixed template text + encoded strings of the results file -/

inductive Piece
  | lit (s : Str)     -- text of the script's templates
  | esc (s : Str)     -- `html_escape` of a string taken from the results file
  | css (s : Str)     -- `to_css_selector` of a string taken from the results file
  | num (n : Nat)     -- a number, written in decimal (`%d`, `str(int)`)
  | raw (s : Str)     -- inserted as it is
  deriving DecidableEq, Repr, Inhabited

def Piece.render : Piece → Str
  | .lit s => s
  | .esc s => htmlEscape s
  | .css s => toCssSelector s
  | .num n => natStr n
  | .raw s => s

def render (ps : List Piece) : Str := ps.flatMap Piece.render

def L (s : String) : Piece := .lit s.toList

/-! ### index.html -/

/-- `error['severity']` after the index loop appended `", inconcl."` -/
def sev0 (e : Err) : Str :=
  match e.inconclusive with
  | some v => if v = "true".toList then e.sev ++ ", inconcl.".toList else e.sev
  | none => e.sev

inductive MsgClass | error | warning | inconclusive
  deriving DecidableEq, Repr, Inhabited

def MsgClass.name : MsgClass → String
  | .error => "error" | .warning => "warning" | .inconclusive => "inconclusive"

def messageClass (e : Err) : Option MsgClass :=
  if sev0 e = "error".toList then some .error
  else if sev0 e = "warning".toList then some .warning
  else match e.inconclusive with
    | some v => if v = "true".toList then some .inconclusive else none
    | none => none

/-- the severity / classification / guideline columns: in a classification report (`reportType`: some finding of
    the results file carries a classification) the severity is blanked and a missing classification reads `None` -/
def shownSeverity (reportType : Bool) (e : Err) : Str := if reportType then [] else sev0 e
def shownCls (reportType : Bool) (e : Err) : Str :=
  if reportType then (if e.cls = [] then "None".toList else e.cls) else e.cls
def shownGuide (reportType : Bool) (e : Err) : Str :=
  if reportType then (if e.cls = [] then "None".toList else e.guideline) else e.guideline

/-- `is_file`: the group has a file name and the file is neither undecodable nor starred -/
def isFileGroup (g : Group) (decodeErr : Bool) : Bool :=
  g.file ≠ [] && !(decodeErr || endsWithStar g.file)

def cweCell (e : Err) : List Piece :=
  match e.cwe with
  | some c => if c = [] then [] else
      [L "<a href=\"https://cwe.mitre.org/data/definitions/", .esc c, L ".html\">", .esc c, L "</a>"]
  | none => []

/-- the cells of a finding row in front of the message cell, in order: line, id, cwe, [severity],
    [classification, guideline] -/
def rowCells (g : Group) (decodeErr reportType : Bool) (e : Err) : List (List Piece) :=
  [ (if isFileGroup g decodeErr then
      [L "<a href=\"", .num g.no, L ".html#line-", .num e.line, L "\">", .num e.line, L "</a>"]
     else []),
    [.esc e.id],
    cweCell e ]
  ++ (if shownSeverity reportType e ≠ [] then [[.esc (shownSeverity reportType e)]] else [])
  ++ (if shownCls reportType e ≠ [] then [[.esc (shownCls reportType e)], [.esc (shownGuide reportType e)]] else [])

def tdP (c : List Piece) : List Piece := L "<td>" :: c ++ [L "</td>"]

/-- the opening tag of the message cell -/
def msgOpen (e : Err) : List Piece :=
  match messageClass e with
  | some c => [L "<td class=\"", L c.name, L "\">"]
  | none => [L "<td>"]

/-- one finding row of index.html, exactly as `tr_str('td', …)` writes it (no author columns).
    `decodeErr` = the file is in `decode_errors`; `reportType` = some finding carries a classification;
    `timestamp` = `time.ctime` of the results file (not a string of the results file) -/
def rowPieces (g : Group) (decodeErr reportType : Bool) (timestamp : Str) (e : Err) : List Piece :=
  [L "<tr class=\"", .css e.id, L " sev_", .esc (shownSeverity reportType e), L " class_",
   .esc (shownCls reportType e), L " issue\">"]
  ++ (rowCells g decodeErr reportType e).flatMap tdP
  ++ msgOpen e
  ++ [.esc e.msg, L "</td>"]
  ++ (if timestamp = [] then [] else [L "<td>", .raw timestamp, L "</td>"])
  ++ [L "</tr>"]

def rowHtml (g : Group) (decodeErr reportType : Bool) (timestamp : Str) (e : Err) : Str :=
  render (rowPieces g decodeErr reportType timestamp e)

structure Row where
  group : Group
  err : Err

/-- all finding rows of index.html, in output order -/
def indexRows (es : List Err) : List Row :=
  (sortedGroups es).flatMap fun g => (sortedErrs g).map fun e => ⟨g, e⟩

/-- the file header row of a group -/
def fileRowPieces (g : Group) (decodeErr : Bool) : List Piece :=
  [L "<tr><td colspan=\"6\">"]
  ++ (if decodeErr || endsWithStar g.file then [.esc g.file]
      else [L "<a href=\"", .num g.no, L ".html\">", .esc g.file, L "</a>"])
  ++ [L "</td></tr>"]

def fileRowHtml (g : Group) (decodeErr : Bool) : Str := render (fileRowPieces g decodeErr)

/-! ### per-file pages -/

/-- entries of a per-file page: one per location of the group's findings that lies in the file -/
def pageLocs (g : Group) : List (Err × Loc) :=
  g.errs.flatMap fun e => (e.locs.filter (fun l => l.file = g.file)).map fun l => (e, l)

def menuEntryPieces (g : Group) (p : Err × Loc) : List Piece :=
  [L "<a href=\"", .num g.no, L ".html#line-", .num p.2.line, L "\"> ", .esc p.1.id, L " ", .num p.2.line, L "</a>"]

def menuPieces (g : Group) : List Piece :=
  (stableSort (fun (a b : Err × Loc) => a.2.line < b.2.line) (pageLocs g)).flatMap (menuEntryPieces g)

def menuHtml (g : Group) : Str := render (menuPieces g)

/-- `newError`: the copy of a finding made for one of its locations in the file; a location with a non-empty
    `info` shows that info instead of the message and loses the verbose text -/
structure PageErr where
  err : Err
  line : Nat
  msg : Str
  verbose : Option Str
  deriving DecidableEq, Repr, Inhabited

def pageEntry (p : Err × Loc) : PageErr :=
  match p.2.info with
  | some i => if i = [] then ⟨p.1, p.2.line, p.1.msg, p.1.verbose⟩ else ⟨p.1, p.2.line, i, none⟩
  | none => ⟨p.1, p.2.line, p.1.msg, p.1.verbose⟩

def pageErrs (g : Group) : List PageErr := (pageLocs g).map pageEntry

/-- `verbose.replace("\\012", '\n')` -/
def replace012 : Str → Str
  | '\\' :: '0' :: '1' :: '2' :: r => '\n' :: replace012 r
  | c :: r => c :: replace012 r
  | [] => []

/-- `error.get('verbose') and error['verbose'] != error['msg']` -/
def PageErr.expandable (p : PageErr) : Option Str :=
  match p.verbose with
  | some v => if v ≠ [] ∧ v ≠ p.msg then some v else none
  | none => none

/-- the text `AnnotateCodeFormatter.wrap` puts behind a source line for one page entry (`none`: nothing - the
    `inconclusive` attribute is present but is not `true`), and whether it is the expandable form, which
    replaces only the LAST newline of the highlighted line while the plain form replaces every newline -/
def annotPieces (p : PageErr) : Option (Bool × List Piece) :=
  let cls : Option String :=
    match p.err.inconclusive with
    | some v => if v = "true".toList then some "inconclusive2" else none
    | none => some "error2"
  match cls with
  | none => none
  | some c =>
    match p.expandable with
    | some v => some (true,
        [L "<div class=\"verbose expandable\"><span class=\"", L c, L "\">&lt;--- ", .esc p.msg,
         L " <span class=\"marker\">[+]</span></span><div class=\"content\">", .esc (replace012 v), L "</div></div>\n"])
    | none => some (false, [L "<span class=\"", L c, L "\">&lt;--- ", .esc p.msg, L "</span>\n"])

/-- `t.replace('\n', x)` -/
def replaceNl (t x : Str) : Str := t.flatMap fun c => if c = '\n' then x else [c]

/-- `index = t.rfind('\n'); t[:index] + x + t[index + 1:]` (python slicing: `rfind` = -1 drops the last character
    in front and keeps the whole text behind) -/
def replaceLastNl (t x : Str) : Str :=
  match t.reverse.idxOf? '\n' with
  | some k => t.take (t.length - 1 - k) ++ x ++ t.drop (t.length - k)
  | none => t.dropLast ++ x ++ t

/-- the highlighted source line `t` (pygments' HTML for it, ending in a newline) after the loop over the page
    entries of that line, in page order (NOT sorted) -/
def annotateLine (t : Str) (ps : List PageErr) : Str :=
  ps.foldl (fun t p =>
    match annotPieces p with
    | none => t
    | some (true, x) => replaceLastNl t (render x)
    | some (false, x) => replaceNl t (render x)) t

/-- what is written behind line `n` of the page of group `g` (the highlighted line itself taken as a bare newline) -/
def lineAnnot (g : Group) (n : Nat) : Str :=
  annotateLine ['\n'] ((pageErrs g).filter fun p => p.line = n)

end Cppcheck.Html

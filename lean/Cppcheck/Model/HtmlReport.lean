import Cppcheck.Model.Wire
/-
C36 — model of htmlreport/cppcheck-htmlreport: html_escape, the version-2 result handler, grouping
by file, and the index rows (exact inner HTML of every `<tr>` of the summary table) and the menu of
each per-file page.  Strings are `List Char` (python `str`, arbitrary code points).
-/
namespace Cppcheck.Html

abbrev Str := List Char

/-- `xml.sax.saxutils.escape(text, {'"': '&quot;', "'": '&apos;'})` -/
def escChar : Char → Str
  | '&' => "&amp;".toList
  | '<' => "&lt;".toList
  | '>' => "&gt;".toList
  | '"' => "&quot;".toList
  | '\'' => "&apos;".toList
  | c => [c]

def htmlEscape (s : Str) : Str := s.flatMap escChar

/-- what an HTML parser makes of the escaped text (the five entities back to characters) -/
def unescape : Str → Str
  | '&' :: 'a' :: 'm' :: 'p' :: ';' :: r => '&' :: unescape r
  | '&' :: 'l' :: 't' :: ';' :: r => '<' :: unescape r
  | '&' :: 'g' :: 't' :: ';' :: r => '>' :: unescape r
  | '&' :: 'q' :: 'u' :: 'o' :: 't' :: ';' :: r => '"' :: unescape r
  | '&' :: 'a' :: 'p' :: 'o' :: 's' :: ';' :: r => '\'' :: unescape r
  | c :: r => c :: unescape r
  | [] => []

structure Loc where
  file : Str
  line : Nat
  info : Option Str
  deriving DecidableEq, Repr, Inhabited

/-- one `<error>` element of a version-2 results file -/
structure Err where
  id : Str
  sev : Str
  msg : Str
  verbose : Option Str
  inconclusive : Option Str
  cwe : Option Str
  cls : Str
  guideline : Str
  locs : List Loc
  deriving DecidableEq, Repr, Inhabited

/-- `handleVersion2`: file and line of a finding are those of its first `<location>` -/
def Err.file (e : Err) : Str := match e.locs with | [] => [] | l :: _ => l.file
def Err.line (e : Err) : Nat := match e.locs with | [] => 0 | l :: _ => l.line

structure Group where
  file : Str
  no : Nat                 -- `str(file_no) + '.html'`
  errs : List Err
  deriving Repr, Inhabited

/-- `files[filename]['errors'].append(error)`, new file names get the next page number -/
def addErr (gs : List Group) (n : Nat) (e : Err) : List Group :=
  match gs with
  | [] => [⟨e.file, n, [e]⟩]
  | g :: r => if g.file = e.file then { g with errs := g.errs ++ [e] } :: r else g :: addErr r n e

def groupsAux : List Err → List Group → List Group
  | [], gs => gs
  | e :: es, gs => groupsAux es (addErr gs gs.length e)

def groups (es : List Err) : List Group := groupsAux es []

/-- python's `<=` on `str` (code point order, prefix first) -/
def strLe : Str → Str → Bool
  | [], _ => true
  | _ :: _, [] => false
  | a :: r, b :: s => if a.toNat < b.toNat then true else if b.toNat < a.toNat then false else strLe r s

/-- stable insertion sort (python's `sorted` is stable) -/
def insertFront {α} (lt : α → α → Bool) (x : α) : List α → List α
  | [] => [x]
  | y :: r => if lt y x then y :: insertFront lt x r else x :: y :: r

/-- x goes in front of the first element of the sorted tail that is not strictly smaller -/
def stableSort {α} (lt : α → α → Bool) : List α → List α
  | [] => []
  | x :: r => insertFront lt x (stableSort lt r)

def strLt (a b : Str) : Bool := strLe a b && a != b

def sortedGroups (es : List Err) : List Group := stableSort (fun a b => strLt a.file b.file) (groups es)

def sortedErrs (g : Group) : List Err := stableSort (fun a b => a.line < b.line) g.errs

def natStr (n : Nat) : Str := (toString n).toList

def endsWithStar (s : Str) : Bool := s.getLast? = some '*'

/-- `to_css_selector` -/
def cssOk (c : Char) : Bool :=
  c = '-' || c = '_' || ('a' ≤ c && c ≤ 'z') || ('A' ≤ c && c ≤ 'Z') || ('0' ≤ c && c ≤ '9') ||
    (0xA0 ≤ c.toNat && c.toNat ≤ 0xFFFF)

def isDigit (c : Char) : Bool := '0' ≤ c && c ≤ '9'

def toCssSelector (tag : Str) : Str :=
  let v := tag.map fun c => if cssOk c then c else '-'
  let bad := match v with
    | c :: _ => isDigit c || (c = '-' && (match v.drop 1 with | d :: _ => isDigit d || d = '-' | [] => false))
    | [] => false
  if bad then "cpp".toList ++ v else v

def td (s : Str) : Str := "<td>".toList ++ s ++ "</td>".toList

/-- one finding row of index.html, exactly as `tr_str('td', …)` writes it (no author columns).
    `decodeErr` = the file is in `decode_errors`; `reportType` = some finding carries a classification -/
def rowPre (g : Group) (decodeErr reportType : Bool) (e : Err) : Str :=
  let fileError := decodeErr || endsWithStar g.file
  let isFile := g.file ≠ [] && !fileError
  let sev0 := match e.inconclusive with
    | some v => if v = "true".toList then e.sev ++ ", inconcl.".toList else e.sev
    | none => e.sev
  let messageClass : Option Str :=
    let m0 := match e.inconclusive with
      | some v => if v = "true".toList then some "inconclusive".toList else none
      | none => none
    if sev0 = "error".toList || sev0 = "warning".toList then some sev0 else m0
  let cweUrl : Str := match e.cwe with
    | some c => if c = [] then [] else
        "<a href=\"https://cwe.mitre.org/data/definitions/".toList ++ htmlEscape c ++ ".html\">".toList ++ htmlEscape c ++ "</a>".toList
    | none => []
  let severity := if reportType then [] else sev0
  let cls := if reportType then (if e.cls = [] then "None".toList else e.cls) else e.cls
  let guide := if reportType then (if e.cls = [] then "None".toList else e.guideline) else e.guideline
  let items : List Str := [htmlEscape e.id, cweUrl]
    ++ (if severity ≠ [] then [htmlEscape severity] else [])
    ++ (if cls ≠ [] then [htmlEscape cls, htmlEscape guide] else [])
  let lineS := natStr e.line
  let cells : Str :=
    if isFile then
      td ("<a href=\"".toList ++ natStr g.no ++ ".html#line-".toList ++ lineS ++ "\">".toList ++ lineS ++ "</a>".toList)
        ++ (items.map td).flatten
    else
      (([] : Str) :: items).map td |>.flatten
  let msgOpen := match messageClass with
    | some c => "<td class=\"".toList ++ c ++ "\">".toList
    | none => "<td>".toList
  let trClass := toCssSelector e.id ++ " sev_".toList ++ htmlEscape severity ++ " class_".toList ++ htmlEscape cls ++ " issue".toList
  "<tr class=\"".toList ++ trClass ++ "\">".toList ++ cells ++ msgOpen

def rowPost (timestamp : Str) : Str :=
  "</td>".toList ++ (if timestamp = [] then [] else td timestamp) ++ "</tr>".toList

def rowHtml (g : Group) (decodeErr reportType : Bool) (timestamp : Str) (e : Err) : Str :=
  rowPre g decodeErr reportType e ++ htmlEscape e.msg ++ rowPost timestamp

structure Row where
  group : Group
  err : Err

/-- all finding rows of index.html, in output order -/
def indexRows (es : List Err) : List Row :=
  (sortedGroups es).flatMap fun g => (sortedErrs g).map fun e => ⟨g, e⟩

/-- the file header row of a group -/
def fileRowHtml (g : Group) (decodeErr : Bool) : Str :=
  let fileError := decodeErr || endsWithStar g.file
  let content := if fileError then htmlEscape g.file
    else "<a href=\"".toList ++ htmlEscape (natStr g.no ++ ".html".toList) ++ "\">".toList ++ htmlEscape g.file ++ "</a>".toList
  "<tr><td colspan=\"6\">".toList ++ content ++ "</td></tr>".toList

/-- entries of the per-file page menu: one per location of the group's findings that lies in the file -/
def pageLocs (g : Group) : List (Err × Loc) :=
  g.errs.flatMap fun e => (e.locs.filter (fun l => l.file = g.file)).map fun l => (e, l)

def menuHtml (g : Group) : Str :=
  ((stableSort (fun (a b : Err × Loc) => a.2.line < b.2.line) (pageLocs g)).map fun p =>
    "<a href=\"".toList ++ natStr g.no ++ ".html#line-".toList ++ natStr p.2.line ++ "\"> ".toList
      ++ htmlEscape p.1.id ++ " ".toList ++ natStr p.2.line ++ "</a>".toList).flatten

end Cppcheck.Html

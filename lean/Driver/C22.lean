import Driver.Common
import Cppcheck.Model.Ctu
import Cppcheck.Model.Unused
open Cppcheck.Wire Cppcheck.Ctu

/-
C22 driver.  One op per line; values use the encoding of harness/c22.cpp:
  FC  <callId> <fname> <argnr> <file> <line> <col> <argexpr> <vt> <val> <ufr> <warn> <npath> {<pfile> <pinfo> <pline> <pcol>}*
  NC  <callId> <fname> <argnr> <file> <line> <col> <myId> <myArgNr>
  UU  <myId> <myArgNr> <argname> <file> <line> <col> <value>
  CD  <name> <file> <cfg> <line> <col> <hash>
(byte strings in hex, "-" = empty)
-/
namespace Driver.C22

abbrev P (α : Type) := List String → Option (α × List String)

def pStr : P Str
  | [] => none
  | w :: r => (fromHex w).map fun s => (s, r)

def pInt : P Int
  | [] => none
  | w :: r => w.toInt?.map fun i => (i, r)

def pNat : P Nat
  | [] => none
  | w :: r => w.toNat?.map fun i => (i, r)

def pLit (k : String) : P Unit
  | [] => none
  | w :: r => if w == k then some ((), r) else none

def pMany {α : Type} (p : P α) : Nat → P (List α)
  | 0, ws => some ([], ws)
  | n + 1, ws =>
    match p ws with
    | none => none
    | some (a, r) => match pMany p n r with
      | none => none
      | some (as, r') => some (a :: as, r')

def pList {α : Type} (p : P α) : P (List α) := fun ws =>
  match pNat ws with
  | none => none
  | some (n, r) => pMany p n r

def pLoc : P Loc := fun ws => do
  let (f, r) ← pStr ws
  let (l, r) ← pInt r
  let (c, r) ← pInt r
  pure (⟨f, l, c⟩, r)

def pPath : P PathLoc := fun ws => do
  let (f, r) ← pStr ws
  let (i, r) ← pStr r
  let (l, r) ← pInt r
  let (c, r) ← pInt r
  pure (⟨f, i, l, c⟩, r)

def pFC : P FunctionCall := fun ws => do
  let (_, r) ← pLit "FC" ws
  let (cid, r) ← pStr r
  let (fn, r) ← pStr r
  let (an, r) ← pInt r
  let (loc, r) ← pLoc r
  let (ae, r) ← pStr r
  let (vt, r) ← pInt r
  let (v, r) ← pInt r
  let (ufr, r) ← pInt r
  let (w, r) ← pNat r
  let (ps, r) ← pList pPath r
  pure (⟨cid, fn, an, loc, ae, vt, v, ufr, w == 1, ps⟩, r)

def pNC : P NestedCall := fun ws => do
  let (_, r) ← pLit "NC" ws
  let (cid, r) ← pStr r
  let (fn, r) ← pStr r
  let (an, r) ← pInt r
  let (loc, r) ← pLoc r
  let (mid, r) ← pStr r
  let (man, r) ← pInt r
  pure (⟨cid, fn, an, loc, mid, man⟩, r)

def pUU : P UnsafeUsage := fun ws => do
  let (_, r) ← pLit "UU" ws
  let (mid, r) ← pStr r
  let (man, r) ← pInt r
  let (nm, r) ← pStr r
  let (loc, r) ← pLoc r
  let (v, r) ← pInt r
  pure (⟨mid, man, nm, loc, v⟩, r)

def pCD : P ClassDef := fun ws => do
  let (_, r) ← pLit "CD" ws
  let (n, r) ← pStr r
  let (f, r) ← pStr r
  let (c, r) ← pStr r
  let (l, r) ← pInt r
  let (co, r) ← pInt r
  let (h, r) ← pNat r
  pure (⟨n, f, c, l, co, h⟩, r)

def pFI : P FileInfo := fun ws => do
  let (fcs, r) ← pList pFC ws
  let (ncs, r) ← pList pNC r
  pure (⟨fcs, ncs⟩, r)

/-! printers -/

def sp (ws : List String) : String := " ".intercalate ws

def locS (l : Loc) : List String := [toHex l.file, toString l.line, toString l.col]

def fcS (c : FunctionCall) : List String :=
  ["FC", toHex c.callId, toHex c.callFunctionName, toString c.callArgNr] ++ locS c.loc ++
  [toHex c.argExpr, toString c.valueType, toString c.argValue, toString c.ufr, boolStr c.warning, toString c.path.length] ++
  c.path.flatMap fun p => [toHex p.file, toHex p.info, toString p.line, toString p.col]

def ncS (c : NestedCall) : List String :=
  ["NC", toHex c.callId, toHex c.callFunctionName, toString c.callArgNr] ++ locS c.loc ++ [toHex c.myId, toString c.myArgNr]

def uuS (u : UnsafeUsage) : List String :=
  ["UU", toHex u.myId, toString u.myArgNr, toHex u.myArgName] ++ locS u.loc ++ [toString u.value]

def fiS (fi : FileInfo) : List String :=
  [toString fi.functionCalls.length] ++ fi.functionCalls.flatMap fcS ++ [toString fi.nestedCalls.length] ++ fi.nestedCalls.flatMap ncS

def uusS (l : List UnsafeUsage) : List String := [toString l.length] ++ l.flatMap uuS

partial def elemS : Elem → List String
  | .mk n as ks =>
    [toHex n, toString as.length] ++ (as.flatMap fun a => [toHex a.1, toHex (attrDecode a.2)]) ++ [toString ks.length] ++ ks.flatMap elemS

def docS : DocRes → String
  | .ok top => sp (["ok", toString top.length] ++ top.flatMap elemS)
  | .error => "error"
  | .unmodelled => "unmodelled"

def idSimp : Str → Str := fun s => s

/-- the element `<FileInfo check=…>` wrapped like `AnalyzerInformation::setFileInfo` does, as its own document -/
def wrapDoc (check : Str) (text : Str) : Str :=
  "<?xml version=\"1.0\"?>\n<analyzerinfo hash=\"1\">\n".toList ++ "  <FileInfo check=\"".toList ++ check ++ "\">\n".toList ++ text
    ++ "  </FileInfo>\n</analyzerinfo>\n".toList

/-- first `FileInfo` element of a wrapped document -/
def fileInfoOf (text : Str) : Option Elem :=
  match loadFile text with
  | .ok ((_, e) :: _) => some e
  | _ => none

def loadStatus (text : Str) : String :=
  match loadFile text with
  | .ok _ => "ok"
  | .loadError => "loaderror"
  | .noRoot => "noroot"
  | .badRoot => "badroot"
  | .unmodelled => "unmodelled"

def chkName (n : String) : Str := n.toList

def pathItemS (p : PathItem) : List String := [toHex p.1, toString p.2.1, toString p.2.2.1, toHex p.2.2.2]

def invOf (n : Nat) : Invalid := if n = 0 then .null else if n = 1 then .uninit else .bufferOverflow

/-- one translation unit of the `wp` op: hash, CTU info, buffer lists, classes, null-pointer list, uninit list, unused-function effects -/
def pWpTU : P (Nat × TUSummary × Cppcheck.Unused.TU) := fun ws => do
  let (h, r) ← pNat ws
  let (fi, r) ← pFI r
  let (a, r) ← pList pUU r
  let (b, r) ← pList pUU r
  let (cds, r) ← pList pCD r
  let (np, r) ← pList pUU r
  let (un, r) ← pList pUU r
  let (nd, r) ← pNat r
  let (ds, r) ← Cppcheck.Unused.pDecls nd r
  let (ncl, r) ← pNat r
  let (cs, r) ← Cppcheck.Unused.pCalls ncl r
  pure ((h, ⟨fi, ⟨a, b⟩, cds, np, un⟩, ⟨ds, cs⟩), r)

def wpS (wp : WholeProgram) : String :=
  "ctu:" ++ sp (fiS wp.ctu)
    ++ "|buf:" ++ ",".intercalate (wp.buffer.map fun b => toHex b.toStr)
    ++ "|cls:" ++ ",".intercalate (wp.classes.map fun l => toHex (classListStr l))
    ++ "|np:" ++ ",".intercalate (wp.nullPointer.map fun l => toHex (unsafeListStr l))
    ++ "|un:" ++ ",".intercalate (wp.uninitVar.map fun l => toHex (unsafeListStr l))

/-- op `wp`: the objects of the main theorem, executed: cache files of all translation units (six `<FileInfo>` elements each),
    `fromBuildDir` on them, `inMemory` on the summaries, the unused-function handler on the same files -/
def wpStep (l : List (Nat × TUSummary × Cppcheck.Unused.TU)) : String :=
  let files := l.map fun x => Cppcheck.Unused.storeAll idSimp x.1 x.2.1 x.2.2
  let w := match fromBuildDir files WholeProgram.empty with
    | some wp => wpS wp
    | none => "none"
  let i := wpS (inMemory (l.map (·.2.1)))
  let b := match Cppcheck.Unused.collectFiles files with
    | .ok c => ",".intercalate (Cppcheck.Unused.sortS ((Cppcheck.Unused.checkCollected Cppcheck.Unused.isMain c).map Cppcheck.Unused.findingS))
    | .threw => "threw"
  let p := l.map fun x =>
    toString x.1 ++ ":" ++ ";".intercalate ((x.2.1.infos idSimp ++ [("CheckUnusedFunctions".toList, Cppcheck.Unused.analyzerInfo x.2.2)]).map
      fun ct => toHex ct.1 ++ "=" ++ toHex ct.2)
  s!"W={w} I={i} B={b} P={",".intercalate p}"

def step (line : String) : String :=
  match fields line with
  | ["esc", s] =>
    match fromHex s with
    | some s => s!"X={toHex (toxml s)} D={toHex (attrDecode (toxml s))}"
    | none => "bad-op"
  | ["raw", s] =>
    match fromHex s with
    | some s =>
      let doc := "<a v=\"".toList ++ s ++ "\"/>".toList
      match parseDoc doc with
      | .ok [e] =>
        match attrStr e "v" with
        | some v =>
          let i := match scanInt64 v with
            | some i => toString i
            | none => "E"
          s!"ok V={toHex v} I={i}"
        | none => "ok V=none"
      | .ok _ => "ok other"
      | .error => "error"
      | .unmodelled => "unmodelled"
    | none => "bad-op"
  | ["doc", s] =>
    match fromHex s with
    | some s => docS (parseDoc s)
    | none => "bad-op"
  | "fi" :: r =>
    match pFI r with
    | some (fi, []) =>
      let text := fi.toStr idSimp
      let doc := wrapDoc "ctu".toList text
      match fileInfoOf doc with
      | some e => s!"T={toHex text} L={sp (fiS (FileInfo.loadFromXml e ⟨[], []⟩))}"
      | none => s!"T={toHex text} L={loadStatus doc}"
    | _ => "bad-op"
  | "uu" :: r =>
    match pList pUU r with
    | some (l, []) =>
      let text := unsafeListStr l
      let doc := wrapDoc "Null pointer".toList text
      match fileInfoOf doc with
      | some e => s!"T={toHex text} L={sp (uusS (loadUnsafeUsageList e))}"
      | none => s!"T={toHex text} L={loadStatus doc}"
    | _ => "bad-op"
  | ["ld", kind, text] =>
    match fromHex text with
    | some text =>
      let doc := wrapDoc (if kind == "ctu" then "ctu".toList else "Null pointer".toList) text
      match loadFile doc with
      | .ok ((_, e) :: _) =>
        if kind == "ctu" then s!"L={sp (fiS (FileInfo.loadFromXml e ⟨[], []⟩))}"
        else s!"L={sp (uusS (loadUnsafeUsageList e))}"
      | .ok [] => "L=nofileinfo"
      | _ => s!"L={loadStatus doc}"
    | none => "bad-op"
  | "cdtext" :: r =>
    match pList pCD r with
    | some (l, []) => s!"T={toHex (classListStr l)}"
    | _ => "bad-op"
  | "bitext" :: r =>
    match pList pUU r with
    | some (a, r2) =>
      match pList pUU r2 with
      | some (b, []) => s!"T={toHex (BufferInfo.toStr ⟨a, b⟩)}"
      | _ => "bad-op"
    | _ => "bad-op"
  | ["chk", name, text] =>
    match fromHex name, fromHex text with
    | some name, some text =>
      let doc := wrapDoc name text
      match loadFile doc with
      | .ok ((_, e) :: _) =>
        if name = chkName "Class" then
          match loadClassInfo e with
          | .value l => s!"R={toHex (classListStr l)}"
          | .null => "R=null"
          | .threw => "R=threw"
        else if name = chkName "Bounds checking" then
          match BufferInfo.load e with
          | some b => s!"R={toHex b.toStr}"
          | none => "R=null"
        else if name = chkName "Null pointer" ∨ name = chkName "Uninitialized variables" then
          match loadUnsafeInfo e with
          | some l => s!"R={toHex (unsafeListStr l)}"
          | none => "R=null"
        else "R=nocheck"
      | .ok [] => "R=nofileinfo"
      | _ => s!"R={loadStatus doc}"
    | _, _ => "bad-op"
  | "file" :: h :: r =>
    match h.toNat?, pList (fun ws => do
        let (c, r) ← pStr ws
        let (t, r) ← pStr r
        pure ((c, t), r)) r with
    | some h, some (infos, []) =>
      let text := storeFile h infos
      match loadFile text with
      | .ok l => s!"F={toHex text} K={sp ([toString l.length] ++ l.flatMap fun ce => toHex ce.1 :: elemS ce.2)}"
      | _ => s!"F={toHex text} K={loadStatus text}"
    | _, _ => "bad-op"
  | "path" :: inv :: warn :: depth :: r =>
    match inv.toNat?, warn.toNat?, depth.toNat?, pFI r with
    | some inv, some warn, some depth, some (fi, r2) =>
      match pUU r2 with
      | some (u, []) =>
        let items := getErrorPath fi (invOf inv) u "Using argument ".toList [] (warn == 1) depth
        sp ([toString items.length] ++ items.flatMap pathItemS)
      | _ => "bad-op"
    | _, _, _, _ => "bad-op"
  | "wp" :: n :: r =>
    match n.toNat? with
    | some n =>
      match pMany pWpTU n r with
      | some (l, []) => wpStep l
      | _ => "bad-op"
    | none => "bad-op"
  | "unused" :: r => Cppcheck.Unused.driverStep r
  | _ => "bad-op"

end Driver.C22

def main : IO Unit := Driver.mainLoop Driver.C22.step

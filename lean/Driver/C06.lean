import Driver.Common
import Cppcheck.Model.AliasScope
open Cppcheck.Wire Cppcheck.VarMap Cppcheck.AliasScope

/-
Line protocol (one op per line):
  ex <item>*     -> "<hex program text> <hex text of expandImpl program> <1|0: expandImpl = expandSpec> <hex probe text>"
                    (probe text: declarations + static_assert of every declared name's expanded type, for a C++ compiler)
  item: `{`  `}`  F<f>:-  F<f>:<x>:<ty>  T<x>:<ty> (typedef)  U<x>:<ty> (using)  V<x>:<ty>:<ex|->  A<x>:<ex>
  ty:   b<k>. | p<ty> | n<x>.          ex:  #<n>. | v<x>. | +<ex><ex>
-/
namespace Driver.C06

def num (s : List Char) : Nat × List Char :=
  let d := s.takeWhile Char.isDigit
  ((String.ofList d).toNat!, (s.drop d.length).drop 1)      -- the terminating `.` / `:` is dropped

partial def parseTy (s : List Char) : Option (Ty × List Char) :=
  match s with
  | 'b' :: r => let (k, r) := num r; some (.base k, r)
  | 'n' :: r => let (k, r) := num r; some (.name k, r)
  | 'p' :: r => (parseTy r).map fun (t, r) => (.ptr t, r)
  | _ => none

partial def parseEx (s : List Char) : Option (Ex × List Char) :=
  match s with
  | '#' :: r => let (k, r) := num r; some (.num k, r)
  | 'v' :: r => let (k, r) := num r; some (.var k, r)
  | '+' :: r =>
    match parseEx r with
    | some (a, r) => (parseEx r).map fun (b, r) => (.add a b, r)
    | none => none
  | _ => none

def parseItem (w : String) : Option Item :=
  match w.toList with
  | ['{'] => some .opn
  | ['}'] => some .cls
  | 'F' :: r =>
    let (f, r) := num r
    match r with
    | ['-'] => some (.fopen f none)
    | _ =>
      let (x, r) := num r
      (parseTy r).map fun (t, _) => .fopen f (some (x, t))
  | 'T' :: r => let (x, r) := num r; (parseTy r).map fun (t, _) => .tdef false x t
  | 'U' :: r => let (x, r) := num r; (parseTy r).map fun (t, _) => .tdef true x t
  | 'V' :: r =>
    let (x, r) := num r
    match parseTy r with
    | some (t, r) =>
      match r.drop 1 with
      | ['-'] => some (.vdecl x t none)
      | r' => (parseEx r').map fun (e, _) => .vdecl x t (some e)
    | none => none
  | 'A' :: r => let (x, r) := num r; (parseEx r).map fun (e, _) => .assign x e
  | _ => none

def step (line : String) : String :=
  match fields line with
  | "ex" :: ws =>
    match ws.mapM parseItem with
    | some p =>
      let a := expandImpl p
      let b := expandSpec p
      s!"{toHex (printProg p)} {toHex (printProg a)} {boolStr (a == b)} {toHex (probeText p)}"
    | none => "bad-op"
  | _ => "bad-op"

end Driver.C06

def main : IO Unit := Driver.mainLoop Driver.C06.step

import Driver.Common
import Cppcheck.Model.XmlWf
open Cppcheck.Wire Cppcheck.XmlWf

/-
C20 driver.
  load <hex>                      -> "err" | "ok -" | "ok <hexname> <hexattr>=<hexvalue> ..."   (model of tinyxml2 Parse)
  decide <hexhash> <hexbytes>     -> reuse | load-error | no-root | bad-root | no-hash | hash-mismatch  (analyzeFile's look at a cache file)
  lits                            -> the literals of the model's cache document: headerA headerB footer (hex)
  items <hexhash> <hexitem>...    -> "<b><b>..." one 0/1 per item: `balancedItem hash item`; then " doc=<0/1>": the document
                                     assembled from the items loads with root analyzerinfo and that hash
-/
namespace Driver.C20

def loadStr (bytes : Str) : String :=
  match load bytes with
  | .error => "err"
  | .ok none => "ok -"
  | .ok (some (n, as)) =>
    " ".intercalate (("ok " ++ toHex n) :: as.map (fun a => toHex a.1 ++ "=" ++ toHex a.2))

def decisionStr : Decision → String
  | .reuse => "reuse" | .loadError => "load-error" | .noRoot => "no-root" | .badRoot => "bad-root"
  | .noHash => "no-hash" | .hashMismatch => "hash-mismatch"

def step (line : String) : String :=
  match fields line with
  | ["decide", h, b] =>
    match fromHex h, fromHex b with
    | some h, some b => decisionStr (decision b h)
    | _, _ => "bad-op"
  | ["lits"] => s!"{toHex headerA} {toHex headerB} {toHex footer}"
  | ["load", h] =>
    match fromHex h with
    | some b => loadStr b
    | none => "bad-op"
  | "items" :: h :: its =>
    match fromHex h, its.mapM fromHex with
    | some h, some its =>
      let bs := String.join (its.map (fun it => boolStr (balancedItem h it)))
      let ok := load (document h its) == .ok (some (rootName, [(hashName, h)]))
      s!"{if bs.isEmpty then "-" else bs} doc={boolStr ok} hashok={boolStr (hashOk h)}"
    | _, _ => "bad-op"
  | _ => "bad-op"

end Driver.C20

def main : IO Unit := Driver.mainLoop Driver.C20.step

import Driver.Common
import Cppcheck.Model.XmlWf
import Cppcheck.Model.CacheCrash
open Cppcheck.Wire Cppcheck.XmlWf Cppcheck.CacheCrash

/-
C20 driver.
  load <hex>                      -> "err" | "ok -" | "ok <hexname> <hexattr>=<hexvalue> ..."   (model of tinyxml2 Parse)
  decide <hexhash> <hexbytes>     -> reuse | load-error | no-root | bad-root | no-hash | hash-mismatch  (analyzeFile's look at a cache file)
  lits                            -> the literals of the model's cache document: headerA headerB footer (hex)
  frun <reportCheckers> wp=<infoids|->:<findingids|-> <file>...
        file = <id>;<hexhash>;<early>;<items>;<disk>     early = - | e[<id>,...]     items = - | <hex>:(E<id>[r]|I<id>),...
        disk = - (no cache file) | R<n> (kill state: the new document cut after n bytes = `Touch.rewritten n`)
             | X<cut>/<hexhash>/<items> (an explicit entry: byte prefix of another document, e.g. after `reopen`)
      -> the FILE-LEVEL model executed on this state: `completeRun w o files (crashDir w files d0 c)`:
         actions=<e|r|a per file> findings=<ids> wp=<ok|err> post=<len:items per file> nobd=<ids of noBuildDirRun>
  items <hexhash> <hexitem>...    -> "<b><b>..." one 0/1 per item: `balancedItem hash item`; then " doc=<0/1>": the document
                                     assembled from the items loads with root analyzerinfo and that hash
-/
namespace Driver.C20

def loadStr (bytes : Str) : String :=
  match load bytes with
  | .error => "err"
  | .ok none => "ok -"
  | .ok (some (n, as)) =>
    " ".intercalate (("ok " ++ toHex n) :: as.map (fun a => toHex a.1 ++ "=" ++ toHex a.2))

def decisionStr : Decision → String
  | .reuse => "reuse" | .loadError => "load-error" | .noRoot => "no-root" | .badRoot => "bad-root"
  | .noHash => "no-hash" | .hashMismatch => "hash-mismatch"

/-! file-level model on real data -/

def natList (s : String) : Option (List Nat) :=
  if s == "-" || s == "" then some [] else (s.splitOn ",").mapM (·.toNat?)

def parseItem (s : String) : Option Item :=
  match s.splitOn ":" with
  | [h, p] =>
    match fromHex h with
    | none => none
    | some b =>
      if p.startsWith "E" then
        let r := p.endsWith "r"
        let num : String := if r then ((p.drop 1).dropEnd 1).toString else (p.drop 1).toString
        num.toNat?.map (fun x => ⟨b, .err x r⟩)
      else if p.startsWith "I" then (p.drop 1).toNat?.map (fun i => ⟨b, .info i⟩)
      else none
  | _ => none

def parseItems (s : String) : Option (List Item) :=
  if s == "-" then some [] else (s.splitOn ",").mapM parseItem

structure FileSpec where
  id : Nat
  hash : Str
  early : Option (List Nat)
  items : List Item
  touch : Touch
  entry : Option CacheEntry

def parseDisk (s : String) : Option (Touch × Option CacheEntry) :=
  if s == "-" then some (.untouched, none)
  else if s.startsWith "R" then (s.drop 1).toNat?.map (fun n => (.rewritten n, none))
  else if s.startsWith "X" then
    match (s.drop 1).toString.splitOn "/" with
    | [c, h, its] =>
      match c.toNat?, fromHex h, parseItems its with
      | some c, some h, some its => some (.untouched, some ⟨h, its, c⟩)
      | _, _, _ => none
    | _ => none
  else none

def parseFile (s : String) : Option FileSpec :=
  match s.splitOn ";" with
  | [i, h, e, its, d] =>
    match i.toNat?, fromHex h, parseItems its, parseDisk d with
    | some i, some h, some its, some (t, en) =>
      let early := if e == "-" then some none else if e.startsWith "e" then (natList (e.drop 1).toString).map some else none
      early.map (fun early => ⟨i, h, early, its, t, en⟩)
    | _, _, _, _ => none
  | _ => none

def idsStr (l : List Nat) : String := if l.isEmpty then "-" else ",".intercalate (l.map toString)

def frun (rc : Bool) (wpInfos wpFindings : List Nat) (fs : List FileSpec) : String :=
  let look := fun (i : Nat) => fs.find? (fun f => f.id == i)
  let w : World :=
    { hashOf := fun i => match look i with | some f => f.hash | none => []
      analyze := fun i _ => match look i with | some f => ⟨f.items, [], []⟩ | none => ⟨[], [], []⟩
      early := fun i => match look i with | some f => f.early | none => none
      wp := fun is => if is == wpInfos then wpFindings else [0]
      wpError := 1
      loadReturn := fun _ => []
      checkersLine := fun _ => 2
      wpActive := [] }
  let files := fs.map (·.id)
  let d0 : Dir := { Dir.empty with cache := fun i => match look i with | some f => f.entry | none => none }
  let c : Crash := { cache := fun i => match look i with | some f => f.touch | none => .untouched
                     summ := fun _ => none, filesTxt := some files.length, checkers := none }
  let d := crashDir w files d0 c
  let o : Opts := ⟨rc⟩
  let acts := runActions w (summaryOf w d) ⟨[], { d with filesTxt := files }, []⟩ files
  let r := completeRun w o files d
  let actStr := String.join (acts.map fun | .early => "e" | .replay => "r" | .analyse => "a")
  let wpok := (collectInfos r.2 files).isSome
  let post := ",".intercalate (files.map fun i => match r.2.cache i with
    | none => "-"
    | some e => s!"{e.bytes.length}:{e.items.length}")
  s!"actions={if actStr.isEmpty then "-" else actStr} findings={idsStr r.1} wp={if wpok then "ok" else "err"} post={post} nobd={idsStr (noBuildDirRun w o files)}"

def step (line : String) : String :=
  match fields line with
  | ["decide", h, b] =>
    match fromHex h, fromHex b with
    | some h, some b => decisionStr (decision b h)
    | _, _ => "bad-op"
  | "frun" :: rc :: wp :: files =>
    match wp.splitOn "=" with
    | ["wp", v] =>
      match v.splitOn ":" with
      | [a, b] =>
        match natList a, natList b, files.mapM parseFile with
        | some a, some b, some fs => frun (rc == "1") a b fs
        | _, _, _ => "bad-op"
      | _ => "bad-op"
    | _ => "bad-op"
  | ["lits"] => s!"{toHex headerA} {toHex headerB} {toHex footer}"
  | ["load", h] =>
    match fromHex h with
    | some b => loadStr b
    | none => "bad-op"
  | "items" :: h :: its =>
    match fromHex h, its.mapM fromHex with
    | some h, some its =>
      let bs := String.join (its.map (fun it => boolStr (balancedItem h it)))
      let ok := load (document h its) == .ok (some (rootName, [(hashName, h)]))
      s!"{if bs.isEmpty then "-" else bs} doc={boolStr ok} hashok={boolStr (hashOk h)}"
    | _, _ => "bad-op"
  | _ => "bad-op"

end Driver.C20

def main : IO Unit := Driver.mainLoop Driver.C20.step

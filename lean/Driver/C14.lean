import Driver.Common
import Cppcheck.Model.AstStore
import Cppcheck.Model.Links
import Cppcheck.Model.DumpXml
open Cppcheck.Wire

namespace Driver.C14
open Cppcheck

def optStr : Option Nat → String
  | none => "-"
  | some v => toString v

def stateStr (s : AstStore.Store) : String :=
  String.join ((List.range s.n).map fun i =>
    optStr (s.parent i) ++ "," ++ optStr (s.op1 i) ++ "," ++ optStr (s.op2 i) ++ "," ++
      (match AstStore.astTop s i with | some u => toString u | none => "HANG") ++ ";")

def parseOpt (s : String) : Option (Option Nat) :=
  if s == "-" then some none else s.toNat?.map some

def parseOps : List String → Option (List AstStore.Op)
  | [] => some []
  | op :: x :: t :: r =>
    match x.toNat?, parseOpt t, parseOps r with
    | some x, some t, some ops =>
      if op == "o1" then some (.o1 x t :: ops)
      else if op == "o2" then some (.o2 x t :: ops)
      else if op == "pa" then some (.pa x t :: ops)
      else if op == "tp" then some (.tp x t :: ops)
      else none
    | _, _, _ => none
  | _ => none

def ocStr : AstStore.Outcome → String
  | .ok => "k" | .throw => "t" | .hang => "h"

def linksStr : Except Links.LErr (List (Option Nat)) → String
  | .ok L => "ok" ++ String.join (L.map fun l => " " ++ optStr l)
  | .error (.unmatched i) => "throw " ++ toString i
  | .error .ub => "ub"

def parseToks : List String → Option (List Links.Tok)
  | [] => some []
  | h :: r =>
    match fromHex h, parseToks r with
    | some t, some ts => if t.isEmpty then none else some (t :: ts)
    | _, _ => none

def parseLinkOps : List String → Option (List Links.LinkOp)
  | [] => some []
  | op :: a :: b :: r =>
    match a.toNat?, parseLinkOps r with
    | some a, some ops =>
      if op == "m" then (b.toNat?).map fun b => .mutual a b :: ops
      else if op == "z" then some (.clear a :: ops)
      else none
    | _, _ => none
  | _ => none

def linkOpInRange (n : Nat) : Links.LinkOp → Bool
  | .mutual a b => decide (a < n) && decide (b < n)
  | .clear a => decide (a < n)

def vecStr (n : Nat) (f : Nat → Option Nat) : String :=
  ",".intercalate ((List.range n).map fun i => optStr (f i))

def parseInt (s : String) : Option Int :=
  if s.startsWith "-" then (s.drop 1).toNat?.map fun n => -(Int.ofNat n) else s.toNat?.map Int.ofNat

def step (line : String) : String :=
  match fields line with
  | "ast" :: n :: rest =>
    match n.toNat?, parseOps rest with
    | some n, some ops =>
      if ops.all (AstStore.Op.inRange n) then
        let s0 := AstStore.init n
        stateStr s0 ++ String.join ((AstStore.trace s0 ops).map fun (oc, s) => " | " ++ ocStr oc ++ " " ++ stateStr s)
      else "bad-op"
    | _, _ => "bad-op"
  | "links" :: toks =>
    match parseToks toks with
    | some ts => linksStr (Links.createLinks ts)
    | none => "bad-op"
  | "links2" :: toks =>      -- stale links are cleared by the loop: same result
    match parseToks toks with
    | some ts => linksStr (Links.createLinks ts)
    | none => "bad-op"
  | "lnk" :: n :: rest =>
    match n.toNat?, parseLinkOps rest with
    | some n, some ops =>
      if ops.all (linkOpInRange n) then
        let tr := Links.linkTrace (fun _ => none) ops
        if tr.isEmpty then "-" else " | ".intercalate (tr.map (vecStr n))
      else "bad-op"
    | _, _ => "bad-op"
  | ["num", v] =>
    match parseInt v with
    | some z => String.ofList (DumpXml.intString z)
    | none => "bad-op"
  | ["toxml", h] =>
    match fromHex h with
    | some s => toHex (DumpXml.toxml s)
    | none => "bad-op"
  | ["toxmlx", h] =>          -- model-only: scanner verdict and reader result of the escaped string
    match fromHex h with
    | some s =>
      let o := DumpXml.toxml s
      s!"{boolStr (DumpXml.attrSafeBool o)} {toHex (DumpXml.unescape o)} {boolStr (s.all DumpXml.roundtripChar)}"
    | none => "bad-op"
  | ["id", n] =>
    match n.toNat? with
    | some n => String.ofList (DumpXml.idString n)
    | none => "bad-op"
  | _ => "bad-op"

end Driver.C14

def main : IO Unit := Driver.mainLoop Driver.C14.step

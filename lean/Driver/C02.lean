import Driver.Common
/- C02 driver (container-size model) — ops are added together with Cppcheck/Model/ContainerSize.lean -/
namespace Driver.C02
def step (_ : String) : String := "bad-op"
end Driver.C02

def main : IO Unit := Driver.mainLoop Driver.C02.step

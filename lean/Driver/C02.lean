import Driver.Common
import Cppcheck.Model.ContainerSize
open Cppcheck.Wire Cppcheck.ContainerSize

/-
op lines:
  spell action <s>                    -> index of Library::Container::actionFrom(s) in the Action enumeration | -
  spell yield <s>                     -> index of yieldFrom(s) | -
  abs <actionIdx> <yieldIdx>          -> name of the assumed effect
  sound <container id> <method> <actionIdx> <yieldIdx>    -> 1 | 0   (entrySound of the row)
  ref <container id> <method>         -> name of the reference effect | ? (unknown id or member)
  run <init> <call>*                  -> Known size after the calls | -     init = known size | -
        call = <actionIdx>:<yieldIdx>:<arg>      (arg = resize argument / appended length, 0 when irrelevant)
  ctor <kind> <b|p> <arg>*            -> Known size of `T x{args}` / `T x(args)` (ctorSize) | -
  ctorref <kind> <b|p> <arg>*         -> size of the constructed container by the reference (ctorRef) | -    ; `x` = excluded form flag appended: `<size> x`
        kind = string | seq | set | uset | multiset
        arg  = n<c|i><k|u><v>  l<len>  p<len>  q<len>,<k><k|u>  a<n>  z<n>,<k>  b<size>,<distinct><k|u>  e  c<size>,<distinct><k|u>
-/
namespace Driver.C02

def actions : List Action :=
  [.resize, .clear, .push, .pop, .find, .findConst, .insert, .erase, .append, .changeContent, .change, .changeInternal, .noAction]

def yields : List Yield :=
  [.atIndex, .item, .buffer, .bufferNt, .startIterator, .endIterator, .iterator, .size, .empty, .noYield]

def idxOf {α : Type} [DecidableEq α] (l : List α) (a : α) : Nat := (l.findIdx? (· == a)).getD l.length

def effName : Eff → String
  | .keep => "keep" | .add k => "add" ++ toString k | .addUnique => "addUnique" | .pop => "pop" | .clear => "clear"
  | .setArg => "setArg" | .addArg => "addArg" | .grow => "grow" | .shrink => "shrink" | .any => "any" | .noMethod => "noMethod"

def parseInt (s : String) : Option Int :=
  if s.startsWith "-" then (s.drop 1).toNat?.map (fun n => - (Int.ofNat n)) else s.toNat?.map Int.ofNat

def parseCall (w : String) : Option Call :=
  match w.splitOn ":" with
  | [a, y, g] =>
    match a.toNat?, y.toNat?, g.toNat? with
    | some a, some y, some g =>
      match actions[a]?, yields[y]? with
      | some a, some y => some { abs := absEffect a y, ref := .any, arg := g }
      | _, _ => none
    | _, _, _ => none
  | _ => none

def parseCalls : List String → Option (List Call)
  | [] => some []
  | w :: r =>
    match parseCall w, parseCalls r with
    | some c, some cs => some (c :: cs)
    | _, _ => none

def parseKind : String → Option CKind
  | "string" => some .string | "seq" => some .seq | "set" => some .set | "uset" => some .uset | "multiset" => some .multiset
  | _ => none

def two (s : String) : Option (Nat × Nat) :=
  match s.splitOn "," with
  | [a, b] => match a.toNat?, b.toNat? with | some a, some b => some (a, b) | _, _ => none
  | _ => none

def parseArg (w : String) : Option Arg :=
  match w.toList with
  | ['e'] => some .itEnd
  | 'n' :: c :: k :: r => (String.ofList r).toNat?.map fun v => .num (c == 'c') v (k == 'k')
  | 'l' :: r => (String.ofList r).toNat?.map .lit
  | 'p' :: r => (String.ofList r).toNat?.map .cptr
  | 'a' :: r => (String.ofList r).toNat?.map .arrB
  | 'z' :: r => (two (String.ofList r)).map fun (n, k) => .arrE n k
  | 'q' :: r =>
    let body := String.ofList r
    (two (body.dropRight 1)).map fun (len, k) => .cptrPlus len k (body.endsWith "k")
  | 'b' :: r =>
    let body := String.ofList r
    (two (body.dropRight 1)).map fun (s, d) => .itBegin s d (body.endsWith "k")
  | 'c' :: r =>
    let body := String.ofList r
    (two (body.dropRight 1)).map fun (s, d) => .cont s d (body.endsWith "k")
  | _ => none

def parseArgs : List String → Option (List Arg)
  | [] => some []
  | w :: r => match parseArg w, parseArgs r with | some a, some as => some (a :: as) | _, _ => none

def showOpt : Option Nat → String
  | some n => toString n
  | none => "-"

def step (line : String) : String :=
  match fields line with
  | ["spell", "action", s] => match Action.ofString s with | some a => toString (idxOf actions a) | none => "-"
  | ["spell", "yield", s] => match Yield.ofString s with | some y => toString (idxOf yields y) | none => "-"
  | ["abs", a, y] =>
    match a.toNat?, y.toNat? with
    | some a, some y =>
      match actions[a]?, yields[y]? with
      | some a, some y => effName (absEffect a y)
      | _, _ => "bad-op"
    | _, _ => "bad-op"
  | ["sound", c, m, a, y] =>
    match a.toNat?, y.toNat? with
    | some a, some y =>
      match actions[a]?, yields[y]? with
      | some a, some y => boolStr (entrySound { container := c, method := m, action := a, yield := y })
      | _, _ => "bad-op"
    | _, _ => "bad-op"
  | ["ref", c, m] =>
    match kindOf c with
    | some k => match refEffect k m with | some e => effName e | none => "?"
    | none => "?"
  | "ctor" :: k :: b :: args =>
    match parseKind k, parseArgs args with
    | some k, some as => showOpt (ctorSize k (b == "b") as)
    | _, _ => "bad-op"
  | "ctorref" :: k :: b :: args =>
    match parseKind k, parseArgs args with
    | some k, some as => showOpt (ctorRef k (b == "b") as) ++ (if ctorExcluded k (b == "b") as then " x" else "")
    | _, _ => "bad-op"
  | "run" :: init :: calls =>
    match parseCalls calls with
    | some cs =>
      let s0 : Option Int := if init == "-" then none else parseInt init
      match absRun cs s0 with
      | some k => toString k
      | none => "-"
    | none => "bad-op"
  | _ => "bad-op"

end Driver.C02

def main : IO Unit := Driver.mainLoop Driver.C02.step

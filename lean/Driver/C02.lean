import Driver.Common
import Cppcheck.Model.ContainerSize
open Cppcheck.Wire Cppcheck.ContainerSize

/-
op lines:
  spell action <s>                    -> index of Library::Container::actionFrom(s) in the Action enumeration | -
  spell yield <s>                     -> index of yieldFrom(s) | -
  abs <actionIdx> <yieldIdx>          -> name of the assumed effect
  sound <container id> <method> <actionIdx> <yieldIdx>    -> 1 | 0   (entrySound of the row)
  ref <container id> <method>         -> name of the reference effect | ? (unknown id or member)
  run <init> <call>*                  -> Known size after the calls | -     init = known size | -
        call = <actionIdx>:<yieldIdx>:<arg>      (arg = resize argument / appended length, 0 when irrelevant)
-/
namespace Driver.C02

def actions : List Action :=
  [.resize, .clear, .push, .pop, .find, .findConst, .insert, .erase, .append, .changeContent, .change, .changeInternal, .noAction]

def yields : List Yield :=
  [.atIndex, .item, .buffer, .bufferNt, .startIterator, .endIterator, .iterator, .size, .empty, .noYield]

def idxOf {α : Type} [DecidableEq α] (l : List α) (a : α) : Nat := (l.findIdx? (· == a)).getD l.length

def effName : Eff → String
  | .keep => "keep" | .add k => "add" ++ toString k | .addUnique => "addUnique" | .pop => "pop" | .clear => "clear"
  | .setArg => "setArg" | .addArg => "addArg" | .grow => "grow" | .shrink => "shrink" | .any => "any" | .noMethod => "noMethod"

def parseInt (s : String) : Option Int :=
  if s.startsWith "-" then (s.drop 1).toNat?.map (fun n => - (Int.ofNat n)) else s.toNat?.map Int.ofNat

def parseCall (w : String) : Option Call :=
  match w.splitOn ":" with
  | [a, y, g] =>
    match a.toNat?, y.toNat?, g.toNat? with
    | some a, some y, some g =>
      match actions[a]?, yields[y]? with
      | some a, some y => some { abs := absEffect a y, ref := .any, arg := g }
      | _, _ => none
    | _, _, _ => none
  | _ => none

def parseCalls : List String → Option (List Call)
  | [] => some []
  | w :: r =>
    match parseCall w, parseCalls r with
    | some c, some cs => some (c :: cs)
    | _, _ => none

def step (line : String) : String :=
  match fields line with
  | ["spell", "action", s] => match Action.ofString s with | some a => toString (idxOf actions a) | none => "-"
  | ["spell", "yield", s] => match Yield.ofString s with | some y => toString (idxOf yields y) | none => "-"
  | ["abs", a, y] =>
    match a.toNat?, y.toNat? with
    | some a, some y =>
      match actions[a]?, yields[y]? with
      | some a, some y => effName (absEffect a y)
      | _, _ => "bad-op"
    | _, _ => "bad-op"
  | ["sound", c, m, a, y] =>
    match a.toNat?, y.toNat? with
    | some a, some y =>
      match actions[a]?, yields[y]? with
      | some a, some y => boolStr (entrySound { container := c, method := m, action := a, yield := y })
      | _, _ => "bad-op"
    | _, _ => "bad-op"
  | ["ref", c, m] =>
    match kindOf c with
    | some k => match refEffect k m with | some e => effName e | none => "?"
    | none => "?"
  | "run" :: init :: calls =>
    match parseCalls calls with
    | some cs =>
      let s0 : Option Int := if init == "-" then none else parseInt init
      match absRun cs s0 with
      | some k => toString k
      | none => "-"
    | none => "bad-op"
  | _ => "bad-op"

end Driver.C02

def main : IO Unit := Driver.mainLoop Driver.C02.step

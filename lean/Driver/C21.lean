import Driver.Common
import Cppcheck.Model.ProcFaults
open Cppcheck.Wire Cppcheck.ProcFaults

/-
C21 driver.  One op per line:
  run <jobs> <seed> <exitcode> <worker>...     worker = file:body:rc:fault
      body  = comma separated frames, `e<n>` (REPORT_ERROR with finding n) or `o` (other frame), `-` = none
      fault = `-` | after,mid,(s<sig>|x<code>)
  -> `sim final=<b> aborted=<b> status=<n> log=<sorted> | exp status=<n> log=<sorted>`
  `sim`: the transition system run under a pseudo-random schedule derived from <seed> (LCG), until final;
  `exp`: the closed form (`expectedReports`, `expectedResult`) that `contained` proves every final state equals.
-/
namespace Driver.C21

def parseFrames (s : String) : Option (List (Option Nat)) :=
  if s == "-" then some [] else
  (s.splitOn ",").mapM fun t =>
    if t == "o" then some none
    else if t.startsWith "e" then (t.drop 1).toNat?.map some
    else none

def parseStatus (s : String) : Option Status :=
  if s.startsWith "s" then (s.drop 1).toNat?.map .signaled
  else if s.startsWith "x" then (s.drop 1).toNat?.map .exited
  else none

def parseFault (s : String) : Option (Option Fault) :=
  if s == "-" then some none else
  match s.splitOn "," with
  | [a, m, st] =>
    match a.toNat?, parseStatus st with
    | some a, some st => some (some ⟨a, m == "1", st⟩)
    | _, _ => none
  | _ => none

def parseWorker (s : String) : Option Worker :=
  match s.splitOn ":" with
  | [f, b, rc, fl] =>
    match f.toNat?, parseFrames b, rc.toNat?, parseFault fl with
    | some f, some b, some rc, some fl => some ⟨f, b, rc, fl⟩
    | _, _, _, _ => none
  | _ => none

def statusStr : Status → String
  | .signaled s => s!"s{s}"
  | .exited c => s!"x{c}"

def reportStr : Report → String
  | .finding x => s!"f{x}"
  | .internal f st => s!"I{f}:{statusStr st}"

def logStr (l : List Report) : String :=
  let ss := (l.map reportStr).mergeSort (fun a b => a < b || a == b)
  if ss.isEmpty then "-" else ",".intercalate ss

def lcg (x : Nat) : Nat := (x * 6364136223846793005 + 1442695040888963407) % 18446744073709551616

/-- run under a pseudo-random schedule until final (or the fuel is used up) -/
def simulate (jobs nworkers : Nat) : Nat → Nat → State → State
  | 0, _, s => s
  | fuel + 1, rng, s =>
    if s.final then s else
    let r1 := lcg rng
    let r2 := lcg r1
    let pick := (r1 / 65536) % (nworkers + 2)
    let l : Label := if pick < 2 then .parent (r2 / 65536) else .worker (pick - 2)
    simulate jobs nworkers fuel r2 (step jobs l s)

def step (line : String) : String :=
  match fields line with
  | "run" :: jobs :: seed :: code :: ws =>
    match jobs.toNat?, seed.toNat?, code.toNat?, ws.mapM parseWorker with
    | some jobs, some seed, some code, some ws =>
      let cfg : Config := ⟨jobs, ws⟩
      let s := simulate jobs ws.length 200000 (seed + 1) (init cfg)
      let expStatus := exitStatus code { init cfg with result := expectedResult cfg }
      s!"sim final={boolStr s.final} aborted={boolStr s.aborted} status={exitStatus code s} log={logStr s.log} | exp status={expStatus} log={logStr (expectedReports cfg).eraseDups} mid={boolStr (!noMidFrame cfg)}"
    | _, _, _, _ => "bad-op"
  | _ => "bad-op"

end Driver.C21

def main : IO Unit := Driver.mainLoop Driver.C21.step

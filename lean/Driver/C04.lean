import Driver.Common
import Cppcheck.Model.SevDecide
import Cppcheck.Model.LeakStraight
open Cppcheck.Wire Cppcheck.SevDecide

/-
op lines (same as harness/c04.cpp):
  sev <checker> <opts> <param> <values> [/ <values>]        -> `-` | <id>/<severity>/<n|i>;...
  leak <ops>      -> reports of the automaton  (Cppcheck.LeakStraight.reports)
  oracle <ops>    -> events of the reference execution (Cppcheck.LeakStraight.oracle)
      ops    = space separated  a<x> (alloc)  f<x> (free)  u<x> (use)  s<x>,<y> (px = py)  r<x> (return px)  z (return 0)
      answer = `-` | <kind>:<x>@<pos>;...    kind = memleak doubleFree deallocuse deallocret uninit
  lib <block>* ## <name>*       -> <name>:<alloc group | ->:<dealloc group | ->  per name (Cppcheck.LibGroups.load from the empty library)
      block = <m|r>;<alloc names, comma separated | ->;<dealloc elements separated by `|`, names by comma>
-/
namespace Driver.C04

def parseInt (s : String) : Option Int :=
  if s.startsWith "-" then (s.drop 1).toNat?.map (fun n => - (Int.ofNat n)) else s.toNat?.map Int.ofNat

def takeNum : List Char → Nat → Nat × List Char
  | c :: r, acc => if c.isDigit then takeNum r (acc * 10 + (c.toNat - 48)) else (acc, c :: r)
  | [], acc => (acc, [])

def parseFlags : Nat → List Char → Value → Option Value
  | 0, _, _ => none
  | _ + 1, [], v => some v
  | n + 1, '-' :: r, v => parseFlags n r v
  | n + 1, 'c' :: r, v => parseFlags n r { v with cond := true }
  | n + 1, 'd' :: r, v => parseFlags n r { v with defaultArg := true }
  | n + 1, 'e' :: r, v => parseFlags n r { v with hasErrorPath := true }
  | n + 1, 's' :: r, v => parseFlags n r { v with safe := true }
  | n + 1, 'm' :: r, v => parseFlags n r { v with ufr := .outOfMemory }
  | n + 1, 'r' :: r, v => parseFlags n r { v with ufr := .outOfResources }
  | n + 1, 'p' :: r, v => let (k, rest) := takeNum r 0; parseFlags n rest { v with path := k }
  | n + 1, 'x' :: '~' :: r, v => let (k, rest) := takeNum r 0; parseFlags n rest { v with indirect := -(Int.ofNat k) }
  | n + 1, 'x' :: r, v => let (k, rest) := takeNum r 0; parseFlags n rest { v with indirect := Int.ofNat k }
  | _ + 1, _, _ => none

def parseValue (w : String) : Option Value :=
  match w.splitOn "," with
  | [kt, iv, fl] =>
    match kt.toList, parseInt iv with
    | [k, t], some i =>
      let kind : Option Kind := match k with
        | 'K' => some .known | 'P' => some .possible | 'N' => some .inconclusive | 'I' => some .impossible | _ => none
      let vt : Option VType := match t with
        | 'i' => some .int | 'u' => some .uninit | 'o' => some .other | _ => none
      match kind, vt with
      | some kind, some vt =>
        parseFlags (fl.length + 1) fl.toList
          { vtype := vt, kind := kind, intvalue := i, cond := false, defaultArg := false, path := 0, hasErrorPath := false,
            safe := false, ufr := .no, indirect := 0 }
      | _, _ => none
    | _, _ => none
  | _ => none

/-- values, optionally two lists separated by `/` -/
def parseValues : List String → Option (List Value × List Value)
  | [] => some ([], [])
  | "-" :: r => parseValues r
  | "/" :: r =>
    match parseValues r with
    | some (a, _) => some ([], a)
    | none => none
  | w :: r =>
    match parseValue w, parseValues r with
    | some v, some (a, b) => some (v :: a, b)
    | _, _ => none

def parseOpts (s : String) : Option Opts :=
  match s.toList with
  | [a, b, c, d] => some { warning := a == '1', portability := b == '1', inconclusive := c == '1', cpp14 := d == '1' }
  | _ => none

def sevStr : Severity → String
  | .error => "error" | .warning => "warning" | .portability => "portability"

def showReports (rs : List Report) : String :=
  if rs.isEmpty then "-"
  else ";".intercalate (rs.map fun r => r.id ++ "/" ++ sevStr r.sev ++ "/" ++ (if r.cert == .inconclusive then "i" else "n"))

/-- `<valid>0:255</valid>` … of isdigit in cfg/std.cfg is `-1:255`?  the harness program calls isdigit; the range is a parameter
    here and the check passes what the translator read from cfg/std.cfg -/
def validRange (lo hi : Int) (x : Int) : Bool := lo ≤ x && x ≤ hi

def sev : List String → String
  | checker :: opts :: param :: rest =>
    match parseOpts opts, parseValues rest with
    | some o, some (l1, l2) =>
      match checker with
      | "zerodiv" => showReports (zerodiv o l1)
      | "nullptr" => showReports (nullPointer o .deref l1)
      | "arrayidx" =>
        match parseInt param with
        | some n => showReports (arrayIndex o n l1)
        | none => "bad-op"
      | "arrayidx2" =>
        match param.splitOn "x" with
        | [a, b] =>
          match parseInt a, parseInt b with
          | some a, some b => showReports (arrayIndexN o [(a, l1), (b, l2)])
          | _, _ => "bad-op"
        | _ => "bad-op"
      | "shiftbits" => showReports (shiftTooManyBits o 32 (param != "u") l1)
      | "shiftneg" =>
        match param.toList with
        | [a, b] => showReports (shiftNegative o (a != 'u') (b != 'u') l1 l2)
        | _ => "bad-op"
      | "intoverflow" => showReports (integerOverflow o 32 (param == "<<") l1)
      | "uninit" => showReports (uninitvar o l1)
      | "invalidarg" =>
        match param.splitOn ":" with
        | [lo, hi] =>
          match parseInt lo, parseInt hi with
          | some lo, some hi => showReports (invalidFunctionArg o (validRange lo hi) l1)
          | _, _ => "bad-op"
        | _ => "bad-op"
      | _ => "bad-op"
    | _, _ => "bad-op"
  | _ => "bad-op"

open Cppcheck.LeakStraight in
def parseOp (w : String) : Option Op :=
  match w.toList with
  | ['z'] => some .ret0
  | 'a' :: r => (String.ofList r).toNat?.map .alloc
  | 'f' :: r => (String.ofList r).toNat?.map .free
  | 'u' :: r => (String.ofList r).toNat?.map .use
  | 'r' :: r => (String.ofList r).toNat?.map .ret
  | 's' :: r =>
    match (String.ofList r).splitOn "," with
    | [x, y] =>
      match x.toNat?, y.toNat? with
      | some x, some y => some (.assign x y)
      | _, _ => none
    | _ => none
  | _ => none

open Cppcheck.LeakStraight in
def parseOps : List String → Option (List Op)
  | [] => some []
  | w :: r =>
    match parseOp w, parseOps r with
    | some o, some os => some (o :: os)
    | _, _ => none

open Cppcheck.LeakStraight in
def kindStr : RKind → String
  | .memleak => "memleak" | .doubleFree => "doubleFree" | .deallocuse => "deallocuse" | .deallocret => "deallocret"
  | .uninit => "uninit"

open Cppcheck.LeakStraight in
def showReps (rs : List Rep) : String :=
  if rs.isEmpty then "-" else ";".intercalate (rs.map fun r => kindStr r.kind ++ ":" ++ toString r.var ++ "@" ++ toString r.pos)

open Cppcheck.LibGroups in
def parseBlock (w : String) : Option Block :=
  match w.splitOn ";" with
  | [k, a, d] =>
    let names (t : String) : List String := if t == "-" then [] else (t.splitOn ",").filter (· ≠ "")
    some { resource := k == "r", allocs := names a, deallocs := (d.splitOn "|").map names }
  | _ => none

open Cppcheck.LibGroups in
def libOp (ws : List String) : String :=
  let blocksW := ws.takeWhile (· ≠ "##")
  let names := (ws.dropWhile (· ≠ "##")).drop 1
  match blocksW.mapM parseBlock with
  | none => "bad-op"
  | some bs =>
    let st := load empty bs
    let sh (o : Option Nat) : String := match o with | some g => toString g | none => "-"
    " ".intercalate (names.map fun n => n ++ "=" ++ sh (allocGroup st n) ++ "/" ++ sh (deallocGroup st n))

def step (line : String) : String :=
  match fields line with
  | "lib" :: rest => libOp rest
  | "sev" :: rest => sev rest
  | "leak" :: rest =>
    match parseOps rest with
    | some p => showReps (Cppcheck.LeakStraight.reports p)
    | none => "bad-op"
  | "oracle" :: rest =>
    match parseOps rest with
    | some p => showReps (Cppcheck.LeakStraight.oracle p)
    | none => "bad-op"
  | _ => "bad-op"

end Driver.C04

def main : IO Unit := Driver.mainLoop Driver.C04.step

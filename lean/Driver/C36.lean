import Driver.Common
import Cppcheck.Model.HtmlReport
open Cppcheck.Wire Cppcheck.Html

namespace Driver.C36

def hexBytes (s : String) : Option ByteArray :=
  if s == "-" then some ByteArray.empty
  else
    let cs := s.toList
    let rec go : List Char → ByteArray → Option ByteArray
      | [], acc => some acc
      | [_], _ => none
      | a :: b :: r, acc =>
        match hexVal a, hexVal b with
        | some x, some y => go r (acc.push (UInt8.ofNat (16 * x + y)))
        | _, _ => none
    go cs ByteArray.empty

/-- hex of UTF-8 bytes → code points -/
def dec (s : String) : Option (List Char) :=
  match hexBytes s with
  | some ba => (String.fromUTF8? ba).map (·.toList)
  | none => none

def decOpt (s : String) : Option (Option (List Char)) :=
  if s == "~" then some none else (dec s).map some

def enc (s : List Char) : String :=
  let ba := (String.ofList s).toUTF8
  if ba.size == 0 then "-" else
    String.ofList (ba.toList.flatMap fun b => [hexDigit (b.toNat / 16), hexDigit (b.toNat % 16)])

def parseLocs : Nat → List String → Option (List Loc × List String)
  | 0, r => some ([], r)
  | n + 1, f :: l :: i :: r =>
    match dec f, l.toNat?, decOpt i, parseLocs n r with
    | some f, some l, some i, some (ls, r') => some (⟨f, l, i⟩ :: ls, r')
    | _, _, _, _ => none
  | _, _ => none

def parseErrs : Nat → List String → Option (List Err × List String)
  | 0, r => some ([], r)
  | n + 1, id :: sev :: msg :: vb :: inc :: cwe :: cls :: gl :: nl :: r =>
    match dec id, dec sev, dec msg, decOpt vb, decOpt inc, decOpt cwe, dec cls, dec gl, nl.toNat? with
    | some id, some sev, some msg, some vb, some inc, some cwe, some cls, some gl, some nl =>
      match parseLocs nl r with
      | some (ls, r') =>
        match parseErrs n r' with
        | some (es, r'') => some (⟨id, sev, msg, vb, inc, cwe, cls, gl, ls⟩ :: es, r'')
        | none => none
      | none => none
    | _, _, _, _, _, _, _, _, _ => none
  | _, _ => none

def step (line : String) : String :=
  match fields line with
  | "report" :: ts :: nlines :: n :: rest =>
    match dec ts, nlines.toNat?, n.toNat? with
    | some ts, some nlines, some n =>
      match parseErrs n rest with
      | some (es, dfiles) =>
        let decodeErrs := dfiles.filterMap dec
        let rt := es.any (fun e => e.cls ≠ [])
        -- index.html: a file row per group, then its finding rows (the rows of `indexRows`, group by group)
        let rows := indexRows es
        let gs := sortedGroups es
        let parts := gs.flatMap fun g =>
          let d := decodeErrs.contains g.file
          ("G:" ++ enc (fileRowHtml g d)) ::
            ((rows.filter fun r => r.group.no = g.no).map fun r => "R:" ++ enc (rowHtml r.group d rt ts r.err))
        -- per-file pages: menu, and the annotation text behind every source line 1..nlines
        let menus := gs.map fun g => "M:" ++ toString g.no ++ ":" ++ enc (menuHtml g)
        let annots := gs.flatMap fun g =>
          (List.range nlines).filterMap fun i =>
            let a := lineAnnot g (i + 1)
            if a = ['\n'] then none else some ("A:" ++ toString g.no ++ ":" ++ toString (i + 1) ++ ":" ++ enc a)
        " ".intercalate (parts ++ menus ++ annots)
      | none => "bad-op"
    | _, _, _ => "bad-op"
  | ["escape", s] =>
    match dec s with
    | some s => enc (htmlEscape s) ++ " " ++ enc (unescape (htmlEscape s))
    | none => "bad-op"
  | _ => "bad-op"

end Driver.C36

def main : IO Unit := Driver.mainLoop Driver.C36.step

import Driver.Common
import Cppcheck.Model.SuppressParse
open Cppcheck.Wire Cppcheck.Glob Cppcheck.Suppress Cppcheck.SuppressParse

/-
C23 driver.  One op per line; byte strings are hex ("-" = empty); lists are "_" (empty) or comma separated.
Trailing optional fields of every op:   sp=<raw>=<simplified>,...     answers of the real Path::simplifyPath
                                        fm=<pattern>=<file>=<0|1>,...  answers of the real PathMatch::match
A simplifyPath question without an answer yields the marker bytes 01 'M' in front of the raw string so that the
python side can ask the harness and run the op again; a missing PathMatch answer is reported as `fm-miss`.
-/
namespace Driver.C23

def optStr : Option Bool → String
  | some true => "1" | some false => "0" | none => "F"

def parseList (s : String) : Option (List Str) :=
  if s == "_" then some [] else (s.splitOn ",").mapM fromHex

def listStr (l : List Str) : String :=
  if l.isEmpty then "_" else ",".intercalate (l.map toHex)

def parseInt (s : String) : Option Int := s.toInt?

def typeOf : Nat → SType
  | 0 => .unique | 1 => .file | 2 => .block | 3 => .blockBegin | 4 => .blockEnd | _ => .macro

def typeCode : SType → Nat
  | .unique => 0 | .file => 1 | .block => 2 | .blockBegin => 3 | .blockEnd => 4 | .macro => 5

/-- errorId fileName line lineBegin lineEnd type symbolName macroName hash thisAndNextLine isInline -/
def parseSuppr : List String → Option (Suppr × List String)
  | id :: fn :: ln :: lb :: le :: ty :: sym :: mac :: h :: tanl :: inl :: rest =>
    match fromHex id, fromHex fn, parseInt ln, parseInt lb, parseInt le, ty.toNat?, fromHex sym, fromHex mac, h.toNat? with
    | some id, some fn, some ln, some lb, some le, some ty, some sym, some mac, some h =>
      some ({ errorId := id, fileName := fn, lineNumber := ln, lineBegin := lb, lineEnd := le, type := typeOf ty,
              symbolName := sym, macroName := mac, hash := h, thisAndNextLine := tanl == "1", isInline := inl == "1" }, rest)
    | _, _, _, _, _, _, _, _, _ => none
  | _ => none

def parseSupprs : Nat → List String → Option (List Suppr × List String)
  | 0, r => some ([], r)
  | n + 1, r =>
    match parseSuppr r with
    | some (s, r') => match parseSupprs n r' with
      | some (l, r'') => some (s :: l, r'')
      | none => none
    | none => none

/-- hash errorId fileName(raw) line symbolNames macroNames -/
def parseMsg (env : Env) : List String → Option (Msg × List String)
  | h :: id :: fn :: ln :: syms :: macs :: rest =>
    match h.toNat?, fromHex id, fromHex fn, parseInt ln, fromHex syms, parseList macs with
    | some h, some id, some fn, some ln, some syms, some macs =>
      some ({ hash := h, errorId := id, fileName := env.simplify fn, lineNumber := ln, symbolNames := syms, macroNames := macs }, rest)
    | _, _, _, _, _, _ => none
  | _ => none

def supprStr (s : Suppr) : String :=
  s!"{toHex s.errorId} {toHex s.fileName} {s.lineNumber} {toHex s.symbolName} {boolStr s.isPolyspace}"

def flagsStr (l : List Suppr) : String :=
  if l.isEmpty then "_" else ",".intercalate (l.map fun s => boolStr s.checked ++ boolStr s.matched)

def resStr : Res → String
  | .none => "None" | .checked => "Checked" | .matched => "Matched"

def addErrStr : AddErr → String
  | .ok => "ok" | .exists => "exists" | .noId => "noid" | .invalidId => "invalidid" | .badGlobId => "badglobid"
  | .badGlobFile => "badglobfile"

def intErrStr : IntErr → String
  | .invalid => "invalid" | .stollRange => "stollrange" | .pos => "pos" | .notInt => "notint" | .limits => "limits"

def parseErrStr : ParseErr → String
  | .filenameMissing => "nofile" | .badLine e => "line:" ++ intErrStr e | .unexpectedExtra => "extra"

/-- the error *string* of addSuppression does not tell which of the two glob checks failed -/
def addErrStrMerged : AddErr → String
  | .badGlobId => "badglob" | .badGlobFile => "badglob" | e => addErrStr e

def lineErrStr : LineErr → String
  | .parse e => "E:" ++ parseErrStr e
  | .add e => "A:" ++ addErrStrMerged e

def xmlErrStr : XmlErr → String
  | .expectedSuppress => "E:expected" | .unknownElement => "E:unknown" | .badLine e => "E:line:" ++ intErrStr e
  | .badHash => "E:hash" | .add e => "A:" ++ addErrStrMerged e

/-! tables -/

def missMarker : Str := [Char.ofNat 1, 'M']

def parsePairs (s : String) : List (Str × Str) :=
  (s.splitOn ",").filterMap fun e =>
    match e.splitOn "=" with
    | [a, b] => match fromHex a, fromHex b with
      | some a, some b => some (a, b)
      | _, _ => none
    | _ => none

def parseTriples (s : String) : List ((Str × Str) × Bool) :=
  (s.splitOn ",").filterMap fun e =>
    match e.splitOn "=" with
    | [a, b, c] => match fromHex a, fromHex b with
      | some a, some b => some ((a, b), c == "1")
      | _, _ => none
    | _ => none

structure Tables where
  sp : List (Str × Str) := []
  fm : List ((Str × Str) × Bool) := []

/-- split the trailing table fields off an op -/
def splitTables (fs : List String) : List String × Tables :=
  fs.foldl (fun (acc : List String × Tables) f =>
    if f.startsWith "sp=" then (acc.1, { acc.2 with sp := parsePairs (f.drop 3).toString })
    else if f.startsWith "fm=" then (acc.1, { acc.2 with fm := parseTriples (f.drop 3).toString })
    else (acc.1 ++ [f], acc.2)) ([], {})

def envOf (t : Tables) : Env where
  simplify := fun s => match t.sp.find? (·.1 = s) with
    | some e => e.2
    | none => missMarker ++ s
  fileMatch := fun p f => match t.fm.find? (·.1 = (p, f)) with
    | some e => e.2
    | none => false

/-- are all PathMatch questions the model can ask for these suppressions × messages answered? -/
def fmCovered (t : Tables) (ss : List Suppr) (ms : List Msg) : Bool :=
  ss.all fun s => s.fileName.isEmpty || ms.all fun m => (t.fm.find? (·.1 = (s.fileName, m.fileName))).isSome

/-! gate -/

/-- internal libReports critical text hasLoc file line file0 id hash symbolNames -/
def parseFinding : List String → Option (Finding × List String)
  | i :: lr :: cr :: tx :: hl :: fl :: ln :: f0 :: id :: h :: sy :: rest =>
    match fromHex tx, fromHex fl, parseInt ln, fromHex f0, fromHex id, h.toNat?, fromHex sy with
    | some tx, some fl, some ln, some f0, some id, some h, some sy =>
      some ({ internal := i == "1", libReports := lr == "1", critical := cr == "1", text := tx,
              stack := if hl == "1" then [(fl, ln)] else [], file0 := f0, id := id, hash := h, symbolNames := sy }, rest)
    | _, _, _, _, _, _, _ => none
  | _ => none

def parseFindings : Nat → List String → Option (List Finding × List String)
  | 0, r => some ([], r)
  | n + 1, r =>
    match parseFinding r with
    | some (f, r') => match parseFindings n r' with
      | some (l, r'') => some (f :: l, r'')
      | none => none
    | none => none

def indexOfFinding (fs : List Finding) (f : Finding) : Nat := fs.findIdx (· = f)

/-! ops -/

def runMsgs (env : Env) (global : Bool) : List (Bool × Msg) → List Suppr → List String → List String × List Suppr
  | [], l, acc => (acc, l)
  | (ex, m) :: r, l, acc =>
    let (b, l') := if ex then listIsSuppressedExplicitly env global m l else listIsSuppressed env global m l
    runMsgs env global r l' (acc ++ [boolStr b])

def parseModeMsgs (env : Env) : Nat → List String → Option (List (Bool × Msg) × List String)
  | 0, r => some ([], r)
  | n + 1, mode :: r =>
    match parseMsg env r with
    | some (m, r') => match parseModeMsgs env n r' with
      | some (l, r'') => some ((mode == "x", m) :: l, r'')
      | none => none
    | none => none
  | _, _ => none

def addAll : List Suppr → List Suppr → List String → List Suppr × List String
  | [], l, acc => (l, acc)
  | s :: r, l, acc =>
    let (e, l') := addSuppression l s
    addAll r l' (acc ++ [addErrStr e])

def commentOutStr : CommentOut → String
  | .notInline => "0"
  | .outOfRange => "T"
  | .ok r => s!"1 {toHex r.errorId} {toHex r.symbolName} {toHex r.extraComment} " ++
      (match r.badAttr with | some w => toHex w | none => "_")

def multiStr : Option (List (Str × Str)) → String
  | none => "E"
  | some l => s!"{l.length}" ++ String.join (l.map fun e => s!" {toHex e.1} {toHex e.2}")

def parseXmlElems : Nat → List String → Option (List (Str × List (Str × Str)) × List String)
  | 0, r => some ([], r)
  | n + 1, en :: k :: r =>
    match fromHex en, k.toNat? with
    | some en, some k =>
      let rec fieldsOf : Nat → List String → Option (List (Str × Str) × List String)
        | 0, r => some ([], r)
        | j + 1, a :: b :: r => match fromHex a, fromHex b, fieldsOf j r with
          | some a, some b, some (l, r') => some ((a, b) :: l, r')
          | _, _, _ => none
        | _, _ => none
      match fieldsOf k r with
      | some (fsx, r') => match parseXmlElems n r' with
        | some (l, r'') => some ((en, fsx) :: l, r'')
        | none => none
      | none => none
    | _, _ => none
  | _, _ => none

def supprListStr (l : List Suppr) : String :=
  s!"{l.length}" ++ String.join (l.map fun s => " " ++ supprStr s)

def readPrinted : Nat → List String → Option (List Suppr)
  | 0, [] => some []
  | k + 1, id :: fn :: ln :: sym :: r =>
    match fromHex id, fromHex fn, parseInt ln, fromHex sym, readPrinted k r with
    | some id, some fn, some ln, some sym, some l =>
      some ({ errorId := id, fileName := fn, lineNumber := ln, symbolName := sym } :: l)
    | _, _, _, _, _ => none
  | _, _ => none

def step (line : String) : String :=
  let (fs, tb) := splitTables (fields line)
  let env := envOf tb
  match fs with
  | ["g", ci, p, n] =>
    match fromHex p, fromHex n with
    | some p, some n =>
      let ci := ci == "1"
      s!"R {optStr (matchglobStack fixApplied p n ci)} F {optStr (matchglobStack true p n ci)} P {optStr (matchglobStack false p n ci)} | dfs={boolStr (matchglob p n ci)} fdfs={boolStr (matchglobFixed p n ci)} pdfs={boolStr (matchglobPre p n ci)} spec={boolStr (Cppcheck.Glob.Spec.matchesB (cstr p) (cstr n))} ok={boolStr (starOk (cstr p))} sw={boolStr fixApplied}"
    | _, _ => "bad-op"
  | ["vg", p] =>
    match fromHex p with
    | some p => boolStr (isValidGlobPattern p)
    | none => "bad-op"
  | "is" :: rest =>
    match parseSuppr rest with
    | some (s, rest) =>
      match parseMsg env rest with
      | some (m, []) =>
        if !fmCovered tb [s] [m] then "fm-miss"
        else s!"{resStr (isSuppressed env s m)} | spec={boolStr (Spec.matchesB env s m)} exact={boolStr (globExact s.errorId && globExact s.symbolName)} file={toHex m.fileName}"
      | _ => "bad-op"
    | none => "bad-op"
  | "ls" :: g :: n :: rest =>
    match n.toNat? with
    | some n =>
      match parseSupprs n rest with
      | some (ss, k :: rest) =>
        match k.toNat? with
        | some k =>
          match parseModeMsgs env k rest with
          | some (ms, []) =>
            let (l, adds) := addAll ss [] []
            if !fmCovered tb ss (ms.map (·.2)) then "fm-miss"
            else
              let (bits, l') := runMsgs env (g == "1") ms l []
              let spec := ms.map fun (x : Bool × Msg) => boolStr (l.any fun s => Spec.active (g == "1") x.2 s && Spec.matchesB env s x.2)
              let exact := l.all fun s => globExact s.errorId && globExact s.symbolName
              s!"A {if adds.isEmpty then "_" else ",".intercalate adds} R {if bits.isEmpty then "_" else "".intercalate bits} F {flagsStr l'} | spec={if spec.isEmpty then "_" else "".intercalate spec} exact={boolStr exact}"
          | _ => "bad-op"
        | none => "bad-op"
      | _ => "bad-op"
    | none => "bad-op"
  | ["pl", l] =>
    match fromHex l with
    | some l =>
      match parseLine env l with
      | .ok s => "ok " ++ supprStr s
      | .error e => "E:" ++ parseErrStr e
    | none => "bad-op"
  | ["ts", id, fn, ln, sym, poly] =>
    match fromHex id, fromHex fn, parseInt ln, fromHex sym with
    | some id, some fn, some ln, some sym =>
      let s : Suppr := { errorId := id, fileName := fn, lineNumber := ln, symbolName := sym, isPolyspace := poly == "1" }
      let t := Cppcheck.SuppressParse.toString s
      let back := match parseLine env t with
        | .ok s' => "ok " ++ supprStr s'
        | .error e => "E:" ++ parseErrStr e
      s!"{toHex t} back={back} | printable={boolStr (printable env s)}"
    | _, _, _, _ => "bad-op"
  | ["pc", c] =>
    match fromHex c with
    | some c => commentOutStr (parseComment c)
    | none => "bad-op"
  | ["pm", c] =>
    match fromHex c with
    | some c => multiStr (parseMulti c)
    | none => "bad-op"
  | ["pf", d] =>
    match fromHex d with
    | some d =>
      let (e, l) := parseFile env [] d
      (match e with | none => "ok" | some e => lineErrStr e) ++ " " ++ supprListStr l
    | none => "bad-op"
  | "px" :: n :: rest =>
    match n.toNat? with
    | some n =>
      match parseXmlElems n rest with
      | some (els, []) =>
        let (e, l) := parseXml env els []
        (match e with | none => "ok" | some e => xmlErrStr e) ++ " " ++
          s!"{l.length}" ++ String.join (l.map fun s => s!" {supprStr s} {s.hash}")
      | _ => "bad-op"
    | none => "bad-op"
  | "pfp" :: n :: rest | "pxp" :: n :: rest =>
    -- the SPEC side of parseFile_print / parseXml_print: add the suppressions one after the other
    let isXml := (fields line).head? == some "pxp"
    match n.toNat? with
    | some n =>
      match readPrinted n rest with
      | some ss =>
        if isXml then
          let hyp := ss.all fun s => decide (intMin ≤ s.lineNumber) && decide (s.lineNumber ≤ intMax)
          let (e, l) := addSeqX (ss.map (xmlFieldsOf env)) []
          let (e2, l2) := parseXml env (ss.map fun s => ("suppress".toList, xmlOf s)) []
          (match e with | none => "ok" | some e => xmlErrStr e) ++ " " ++ supprListStr l ++
            s!" | hyp={boolStr hyp} same={boolStr (decide (l = l2) && decide (e = e2))}"
        else
          let hyp := ss.all fun s => printable env s && !skipLine (Cppcheck.SuppressParse.toString s) &&
            (Cppcheck.SuppressParse.toString s).all (fun c => c != '\n' && c != '\r')
          let (e, l) := addSeq (ss.map printedFields) []
          let (e2, l2) := parseFile env [] (fileOf ss)
          (match e with | none => "ok" | some e => lineErrStr e) ++ " " ++ supprListStr l ++
            s!" | hyp={boolStr hyp} same={boolStr (decide (l = l2) && decide (e = e2))}"
      | none => "bad-op"
    | none => "bad-op"
  | ["si", s] =>
    match fromHex s with
    | some s => match strToInt s with
      | .ok i => s!"ok {i}"
      | .error e => "E:" ++ intErrStr e
    | none => "bad-op"
  | "gt" :: safety :: dup :: ug :: n1 :: rest =>
    match n1.toNat? with
    | some n1 =>
      match parseSupprs n1 rest with
      | some (nomsg0, n2 :: rest) =>
        match n2.toNat? with
        | some n2 =>
          match parseSupprs n2 rest with
          | some (nofail0, k :: rest) =>
            match k.toNat? with
            | some k =>
              match parseFindings k rest with
              | some (fsx, []) =>
                let (nomsg, a1) := addAll nomsg0 [] []
                let (nofail, a2) := addAll nofail0 [] []
                let cfg : GCfg := { safety := safety == "1", emitDuplicates := dup == "1", useGlobal := ug == "1" }
                let ms := fsx.map (toMsg env cfg)
                if !fmCovered tb (nomsg0 ++ nofail0) ms then "fm-miss"
                else
                  let st := gate env cfg nomsg nofail fsx
                  let outs := st.out.map fun o => s!"{indexOfFinding fsx o.f}:{boolStr o.asInternal}:{toHex o.remark}"
                  let uns := ms.map fun m => boolStr (!(nomsg.any fun s => Spec.active cfg.useGlobal m s && Spec.matchesB env s m))
                  let exact := nomsg.all fun s => globExact s.errorId && globExact s.symbolName
                  let later := ms.map fun m => boolStr (nomsg.any fun s => Spec.active true m s && Spec.matchesB env s m)
                  -- second gate of a parallel run over what this logger forwarded
                  let ex := st.out.foldl (fun (acc : String × EState) o =>
                      let r := hasToLog env cfg acc.2 o
                      (acc.1 ++ boolStr r.1, r.2)) ("", ({ nomsg := st.nomsg } : EState))
                  s!"A {if (a1 ++ a2).isEmpty then "_" else ",".intercalate (a1 ++ a2)} O {if outs.isEmpty then "_" else ",".intercalate outs} X {st.exitCode} N {flagsStr st.nomsg} M {flagsStr st.nofail} E {if ex.1.isEmpty then "_" else ex.1} N2 {flagsStr ex.2.nomsg} | unsup={if uns.isEmpty then "_" else "".intercalate uns} later={if later.isEmpty then "_" else "".intercalate later} exact={boolStr exact}"
              | _ => "bad-op"
            | none => "bad-op"
          | _ => "bad-op"
        | none => "bad-op"
      | _ => "bad-op"
    | none => "bad-op"
  | _ => "bad-op"

end Driver.C23

def main : IO Unit := Driver.mainLoop Driver.C23.step

import Driver.Common
import Cppcheck.Model.CondExpr
import Cppcheck.Model.CondOpposite
import Cppcheck.Model.CondTypeRange
open Cppcheck.Wire Cppcheck.CondExpr

/-
C03 driver.  Ops (one per line):
  case <c|cpp> <vars> <lits> | <tree1> [| <tree2>]
      vars = `-` or `,`-separated  <varid>:<ty>                ty = s|u followed by the rank digit 1 char … 5 long long
      lits = `-` or `,`-separated  <hexspelling>:<ty>:<value>   (what the C compiler sees; used by `annOK` only)
      tree = the serialisation printed by harness/c03.cpp
    → <r12> <r21> # <findings> # per tree three letters T/F: annOK cmpSafe vtOK(all nodes)
  eval <vars> <lits> <env>;<env>;… | <tree>          env = `-` or `,`-separated <varid>=<value>
    → `,`-separated  v:<value> | ub
-/
namespace Driver.C03

def parseInt? (s : String) : Option Int := s.toInt?

def optInt (s : String) : Option (Option Int) :=
  if s == "-" then some none else (parseInt? s).map some

def parseTy (s : String) : Option Ty :=
  match s.toList with
  | [sg, d] =>
    let sgn? : Option Bool := if sg == 's' then some true else if sg == 'u' then some false else none
    let r? : Option Rank := match d with
      | '1' => some .char | '2' => some .short | '3' => some .int | '4' => some .long | '5' => some .llong | _ => none
    match sgn?, r? with
    | some sg, some r => some ⟨r, sg⟩
    | _, _ => none
  | _ => none

def parseVT (s : String) : Option (Option VT) :=
  if s == "-" then some none
  else match s.toList with
    | [sg, d] =>
      let sgn? : Option Sign := if sg == 's' then some .signed else if sg == 'u' then some .unsigned else if sg == 'n' then some .unknown else none
      match sgn?, d.isDigit with
      | some sg, true => some (some ⟨sg, d.toNat - 48⟩)
      | _, _ => none
    | _ => none

def parseUn : String → Option UnOp
  | "neg" => some .neg | "compl" => some .compl | "lnot" => some .lnot | _ => none

def parseBin : String → Option BinOp
  | "add" => some .add | "sub" => some .sub | "mul" => some .mul | "div" => some .div | "mod" => some .mod
  | "shl" => some .shl | "shr" => some .shr | "band" => some .band | "bor" => some .bor | "bxor" => some .bxor
  | "lt" => some .lt | "le" => some .le | "gt" => some .gt | "ge" => some .ge | "eq" => some .eq | "ne" => some .ne
  | "land" => some .land | "lor" => some .lor | _ => none

def mkAnn (col vt k f r : String) (num : Option Int) : Option Ann :=
  match col.toNat?, parseVT vt, optInt k, optInt f, optInt r with
  | some col, some vt, some k, some f, some r => some { col := col, vt := vt, known := k, first := f, front := r, num := num }
  | _, _, _, _, _ => none

/-- recursive descent over the token list; fuel = number of tokens -/
def parseTree : Nat → List String → Option (Expr × List String)
  | 0, _ => none
  | n + 1, toks =>
    match toks with
    | "L" :: col :: sp :: vt :: k :: f :: r :: num :: rest =>
      match fromHex sp, optInt num with
      | some sp, some num =>
        match mkAnn col vt k f r num with
        | some a => some (.lit a sp, rest)
        | none => none
      | _, _ => none
    | "V" :: col :: id :: vt :: k :: f :: r :: rest =>
      match id.toNat?, mkAnn col vt k f r none with
      | some id, some a => some (.var a id, rest)
      | _, _ => none
    | "U" :: col :: op :: vt :: k :: f :: r :: rest =>
      match parseUn op, mkAnn col vt k f r none with
      | some op, some a =>
        match parseTree n rest with
        | some (e, rest) => some (.un a op e, rest)
        | none => none
      | _, _ => none
    | "B" :: col :: op :: vt :: k :: f :: r :: rest =>
      match parseBin op, mkAnn col vt k f r none with
      | some op, some a =>
        match parseTree n rest with
        | some (l, rest) =>
          match parseTree n rest with
          | some (rr, rest) => some (.bin a op l rr, rest)
          | none => none
        | none => none
      | _, _ => none
    | _ => none

def parseWhole (toks : List String) : Option Expr :=
  match parseTree (toks.length + 1) toks with
  | some (e, []) => some e
  | _ => none

def splitBar (toks : List String) : List (List String) :=
  toks.foldr (fun t acc => if t == "|" then [] :: acc else match acc with | a :: r => (t :: a) :: r | [] => [[t]]) [[]]

def parseVars (s : String) : Option (List (Nat × Ty)) :=
  if s == "-" then some []
  else (s.splitOn ",").mapM fun item =>
    match item.splitOn ":" with
    | [id, ty] => match id.toNat?, parseTy ty with
      | some id, some ty => some (id, ty)
      | _, _ => none
    | _ => none

def parseLits (s : String) : Option (List (List Char × Ty × Int)) :=
  if s == "-" then some []
  else (s.splitOn ",").mapM fun item =>
    match item.splitOn ":" with
    | [sp, ty, v] => match fromHex sp, parseTy ty, parseInt? v with
      | some sp, some ty, some v => some (sp, ty, v)
      | _, _, _ => none
    | _ => none

def parseEnv (s : String) : Option (List (Nat × Int)) :=
  if s == "-" then some []
  else (s.splitOn ",").mapM fun item =>
    match item.splitOn "=" with
    | [id, v] => match id.toNat?, parseInt? v with
      | some id, some v => some (id, v)
      | _, _ => none
    | _ => none

def mkSem (vars : List (Nat × Ty)) (lits : List (List Char × Ty × Int)) : Sem :=
  { vty := fun x => match vars.find? (·.1 == x) with | some p => p.2 | none => tInt
    lty := fun sp => match lits.find? (·.1 == sp) with | some p => p.2.1 | none => tInt
    lval := fun sp => match lits.find? (·.1 == sp) with | some p => p.2.2 | none => 0 }

def tf (b : Bool) : String := if b then "T" else "F"

def results (cpp : Bool) (a b : Expr) : String :=
  tf (isSame cpp .cond a .cond b) ++ tf (isOpp cpp false .cond a .cond b) ++ tf (isOpp cpp true .cond a .cond b) ++
  tf (isOppExpr cpp .cond a .cond b)

def findingsStr (fs : List Finding) : String :=
  if fs.isEmpty then "-"
  else ";".intercalate (fs.map fun f => f.id ++ "@" ++ toString f.col ++ ":" ++ toHex f.msg.toList)

def step (line : String) : String :=
  match fields line with
  | "case" :: lang :: vars :: lits :: "|" :: rest =>
    match parseVars vars, parseLits lits, (splitBar rest).mapM parseWhole with
    | some vars, some lits, some trees =>
      let cpp := lang == "cpp"
      let S := mkSem vars lits
      let res := match trees with
        | [a, b] => results cpp a b ++ " " ++ results cpp b a
        | _ => "---- ----"
      res ++ " # " ++ findingsStr (findings trees) ++ " # " ++
        " ".intercalate (trees.map fun t => tf (annOK S t) ++ tf (cmpSafe S t) ++ tf (vtAll S t))
    | _, _, _ => "bad-op"
  | "eval" :: vars :: lits :: envs :: "|" :: rest =>
    match parseVars vars, parseLits lits, (envs.splitOn ";").mapM parseEnv, parseWhole rest with
    | some vars, some lits, some envs, some e =>
      let S := mkSem vars lits
      ",".intercalate (envs.map fun env =>
        let ρ : Env := fun x => match env.find? (·.1 == x) with | some p => p.2 | none => 0
        match eval S ρ e with
        | some v => "v:" ++ toString v
        | none => "ub")
    | _, _, _, _ => "bad-op"
  | _ => "bad-op"

end Driver.C03

def main : IO Unit := Driver.mainLoop Driver.C03.step

import Driver.Common
import Cppcheck.Model.FileLister
open Cppcheck.Wire Cppcheck.PathCanon Cppcheck.PathMatch Cppcheck.FileLister

/-
C31 driver.  Ops shared with harness/c31.cpp (same line, same answer):
  pm pml pi sp af rp jn grp ls
Driver-only ops (documented rules / hypothesis classes, used for P_impl and the translation check):
  spec <u|w> <r|d> <pattern> <path> <base>  -> <spec> pc=<CanonOk pattern> xc=<CanonOk path> so=<starOk> ds=<dirSepOk> P=<canon pattern> X=<canon path>
  canon <u|w> <a|N> <b|N>                   -> <canon> ok=<CanonOk> ds=<noInnerDoubleSep> cr=<closedRoot> rd=<rootDotDot> ne=<noEscape>
  spx <path>                                -> wraps=<dotdot loop took the size_t wrap-around branch>
  exts                                      -> cpp=<..> c=<..> hdr=<..>
-/
namespace Driver.C31

def syn (s : String) : Syntax := if s == "w" then .windows else .unix
def fm (s : String) : Filemode := if s == "d" then .directory else .regular

def hexN (s : String) : Option Str := if s == "N" then some [] else fromHex s

def hexList : Nat → List String → Option (List Str × List String)
  | 0, r => some ([], r)
  | n + 1, x :: r =>
    match fromHex x, hexList n r with
    | some v, some (vs, r') => some (v :: vs, r')
    | _, _ => none
  | _ + 1, [] => none

/-- parse `k` trees from the token list (fuel = number of tokens) -/
def parseTrees : Nat → Nat → List String → Option (List Tree × List String)
  | _, 0, r => some ([], r)
  | 0, _ + 1, _ => none
  | fuel + 1, k + 1, "f" :: n :: r =>
    match fromHex n, parseTrees fuel k r with
    | some n, some (ts, r') => some (.file n :: ts, r')
    | _, _ => none
  | fuel + 1, k + 1, "d" :: n :: cnt :: r =>
    match fromHex n, cnt.toNat? with
    | some n, some cnt =>
      match parseTrees fuel cnt r with
      | some (ch, r') =>
        match parseTrees fuel k r' with
        | some (ts, r'') => some (.dir n ch :: ts, r'')
        | none => none
      | none => none
    | _, _ => none
  | _, _, _ => none

def findNode : List Str → Tree → Option Tree
  | [], t => some t
  | n :: r, .dir _ ch =>
    match ch.find? (fun c => c.name == n) with
    | some c => findNode r c
    | none => none
  | _ :: _, .file _ => none

def classLetters (root : Nat) (raw : Str) : String :=
  let s := (if noInnerDoubleSep root raw then "" else "d") ++ (if rootDotDot root raw then "r" else "") ++
    (if closedRoot root raw then "" else "o") ++ (if root == 0 && !noEscape root raw then "e" else "") ++
    (if root ≤ raw.length then "" else "l")
  if s.isEmpty then "-" else s

def splitNames (s : Str) : List Str := (splitSlash s).filter (· != [])

def step (v : Variant) (line : String) : String :=
  match fields line with
  | ["pm", s, m, pat, path, base] =>
    match fromHex pat, fromHex path, fromHex base with
    | some pat, some path, some base => boolStr (pathMatch v (syn s) (fm m) pat path base)
    | _, _, _ => "bad-op"
  | "pml" :: s :: m :: path :: base :: n :: rest =>
    match fromHex path, fromHex base, n.toNat? with
    | some path, some base, some n =>
      match hexList n rest with
      | some (pats, _) => boolStr (pathMatchList v (syn s) pats base path (fm m))
      | none => "bad-op"
    | _, _, _ => "bad-op"
  | ["pi", s, a, b] =>
    match hexN a, hexN b with
    | some a, some b => toHex ((Iter.mk' v (syn s) a b).read v)
    | _, _ => "bad-op"
  | ["sp", p] =>
    match fromHex p with
    | some p => (match simplifyPathO p with | some r => toHex r | none => "model-out-of-fuel")
    | none => "bad-op"
  | "af" :: p :: n :: rest =>
    match fromHex p, n.toNat? with
    | some p, some n =>
      match hexList n rest with
      | some (extra, _) =>
        let r := acceptFile extra p
        s!"{boolStr r.1} {r.2.code} {boolStr (identify p).2} {toHex (getFilenameExtension p)}"
      | none => "bad-op"
    | _, _ => "bad-op"
  | ["rp", p] =>
    match fromHex p with
    | some p => s!"{boolStr (isRelativePattern p)} {boolStr (isAbsolute p)}"
    | none => "bad-op"
  | ["jn", a, b] =>
    match fromHex a, fromHex b with
    | some a, some b => toHex (Cppcheck.PathCanon.join a b)
    | _, _ => "bad-op"
  | "grp" :: a :: n :: rest =>
    match fromHex a, n.toNat? with
    | some a, some n =>
      match hexList n rest with
      | some (bps, _) => toHex (getRelativePath a bps)
      | none => "bad-op"
    | _, _ => "bad-op"
  | "cli" :: n :: rest =>
    match n.toNat? with
    | some n =>
      match hexList n rest with
      | some (args, _) =>
        match parseIgnoreArgs args with
        | none => "F"
        | some (ig, ff, pn) =>
          let j (l : List Str) := s!"{l.length}" ++ String.join (l.map (fun x => " " ++ toHex x))
          s!"S {j ig} {j ff} {j pn}"
      | none => "bad-op"
    | none => "bad-op"
  | "clisel" :: cwd :: n :: rest =>
    -- the whole selection of `cppcheck <args>` run in <cwd> on the tree given below <cwd>: `cliSelect`
    match fromHex cwd, n.toNat? with
    | some cwd, some n =>
      match hexList n rest with
      | some (args, ntop :: rest) =>
        match ntop.toNat? with
        | some ntop =>
          match parseTrees (rest.length + 1) ntop rest with
          | some (top, _) =>
            let resolve (p : Str) : Option Tree :=
              let p := if isAbsolute p then (if cwd.isPrefixOf p then p.drop cwd.length else ['/', '!']) else p
              if p == ['/', '!'] then none
              else findNode ((splitSlash p).filter (fun c => c != [] && c != dot)) (.dir [] top)
            match cliSelect args cwd resolve with
            | none => "F"
            | some l => s!"S {l.length}" ++ String.join (l.map (fun x => " " ++ toHex x))
          | none => "bad-tree"
        | none => "bad-op"
      | _ => "bad-op"
    | _, _ => "bad-op"
  | ["uspec", m, u, path, cwd] =>
    match fromHex u, fromHex path, fromHex cwd with
    | some u, some path, some cwd => boolStr (userIgnoreSpecB (fm m) u path cwd)
    | _, _, _ => "bad-op"
  | "ls" :: _casedir :: patharg :: nodepath :: base :: ni :: rest =>
    match fromHex patharg, fromHex base, ni.toNat? with
    | some patharg, some base, some ni =>
      match hexList ni rest with
      | some (ign, ne :: rest) =>
        match ne.toNat? with
        | some ne =>
          match hexList ne rest with
          | some (extra, ntop :: rest) =>
            match ntop.toNat? with
            | some ntop =>
              match parseTrees (rest.length + 1) ntop rest with
              | some (top, _) =>
                let node : Option Tree :=
                  if nodepath == "!" then none
                  else match fromHex nodepath with
                    | some np => findNode (splitNames np) (.dir [] top)
                    | none => none
                let r := addFiles (pathMatchList v .unix ign base) (acceptFile extra) patharg node
                let items := r.2.map (fun f => toHex f.1 ++ ":" ++ toString f.2.code)
                s!"E{toHex r.1.toList} {r.2.length}" ++ String.join (items.map (" " ++ ·))
              | none => "bad-tree"
            | none => "bad-op"
          | _ => "bad-op"
        | none => "bad-op"
      | _ => "bad-op"
    | _, _, _ => "bad-op"
  | ["spec", s, m, pat, path, base] =>
    match fromHex pat, fromHex path, fromHex base with
    | some pat, some path, some base =>
      let sy := syn s
      let rp := rawPattern sy pat base
      let rx := rawPath sy path base
      let P := canonPattern sy pat base
      s!"{boolStr (pathMatchSpecB sy (fm m) pat path base)} ok={boolStr (MatchOk v sy (fm m) pat path base)} pc={boolStr (CanonOk v rp.1 rp.2)} xc={boolStr (CanonOk v rx.1 rx.2)} pk={classLetters rp.1 rp.2} xk={classLetters rx.1 rx.2} fp={boolStr (pat != path || FastPathOk sy pat base)} so={boolStr (v.star || starOkR P.reverse)} ds={boolStr (dirSepOk sy (fm m) pat base)} P={toHex P} X={toHex (canonPath sy path base)}"
    | _, _, _ => "bad-op"
  | ["canon", s, a, b] =>
    match hexN a, hexN b with
    | some a, some b =>
      let r := rawOf (syn s) a b
      s!"{toHex (canon r.1 r.2)} ok={boolStr (CanonOk v r.1 r.2)} k={classLetters r.1 r.2} ds={boolStr (noInnerDoubleSep r.1 r.2)} cr={boolStr (closedRoot r.1 r.2)} rd={boolStr (rootDotDot r.1 r.2)} ne={boolStr (noEscape r.1 r.2)}"
    | _, _ => "bad-op"
  | ["spx", p] =>
    match fromHex p with
    | some p =>
      if p.isEmpty then "wraps=0"
      else
        let q := fromNativeSeparators p
        let q := dedupSlash q
        let q := removeDotSlash none q
        let q := if "/.".toList.isSuffixOf q then q.dropLast else q
        s!"wraps={boolStr (dotdotWraps (dotdotFuel q) q 1)}"
    | none => "bad-op"
  | ["exts"] =>
    let j (l : List Str) := ",".intercalate (l.map String.ofList)
    s!"cpp={j cppSrcExts} c={j cSrcExts} hdr={j headerExts}"
  | _ => "bad-op"

end Driver.C31

/-- argument: four characters 0/1 = the repairs (dsep, rootdd, star, dirsep) the code is taken to contain; default: all -/
def main (args : List String) : IO Unit :=
  let bit (s : String) (i : Nat) : Bool := (s.toList.getD i '1') == '1'
  let v : Cppcheck.PathCanon.Variant := match args with
    | a :: _ => ⟨bit a 0, bit a 1, bit a 2, bit a 3⟩
    | [] => Cppcheck.PathCanon.Variant.fixed
  Driver.mainLoop (Driver.C31.step v)

import Driver.Common
import Cppcheck.Model.LibValid
open Cppcheck.Wire Cppcheck.LibValid

namespace Driver.C30

def parseInt (s : String) : Option Int := s.toInt?

/-- `m * 2^e` as a scaled double (the harness builds the same value with ldexp) -/
def mkDbl (m : Int) (e : Int) : Option Dbl :=
  if e + 1074 < 0 then none else some (m * (2 : Int) ^ (e + 1074).toNat)

/-- strip factors of two (fuel = bit length bound; a finite double has at most 2098 bits) -/
def stripTwos : Nat → Nat → Nat → Nat × Nat
  | 0, m, k => (m, k)
  | fuel + 1, m, k => if m != 0 && m % 2 == 0 then stripTwos fuel (m / 2) (k + 1) else (m, k)

def dblStr (d : Dbl) : String :=
  if d == 0 then "0p0"
  else
    let (m, k) := stripTwos 2200 d.natAbs 0
    s!"{if d < 0 then "-" else ""}{m}p{(k : Int) - 1074}"

def optIntStr : Option Int → String
  | some v => toString v
  | none => "E"

def loadedStr : Loaded → String
  | .rejected => "load=5"
  | .verdict r => "load=0 r=" ++ r.toString

def parseDecl (s : String) : Option ArgDecl :=
  match s.splitOn ":" with
  | [nr, fl] =>
    let flags := fl.toList
    let key : Option Int := if nr == "any" || nr == "variadic" then some (-1) else nr.toInt?
    match key with
    | none => none
    | some k =>
      -- children in document order: the last <not-uninit> wins
      let nu : Option Int := flags.foldl (fun acc c =>
        if c == 'u' then some 0 else if c == '1' then some 1 else if c == '2' then some 2 else if c == '3' then some 3 else acc) none
      some { nr := k, variadic := nr == "variadic", optional := flags.contains 'o', notbool := flags.contains 'b',
             notnull := flags.contains 'n', notuninit := nu, formatstr := flags.contains 'f', hasValid := flags.contains 'v' }
  | [nr] =>
    let key : Option Int := if nr == "any" || nr == "variadic" then some (-1) else nr.toInt?
    key.map fun k => { nr := k, variadic := nr == "variadic" }
  | _ => none

def parseDecls : List String → Option (List ArgDecl)
  | [] => some []
  | s :: r => match parseDecl s, parseDecls r with
    | some d, some ds => some (d :: ds)
    | _, _ => none

def b (x : Bool) : String := if x then "1" else "0"

def step (line : String) : String :=
  match fields line with
  | ["I", v, x] =>
    match fromHex v, parseInt x with
    | some v, some x => loadedStr (loadAndCheckInt v x)
    | _, _ => "bad-op"
  | ["F", v, m, e] =>
    match fromHex v, parseInt m, parseInt e with
    | some v, some m, some e =>
      match mkDbl m e with
      | some x => loadedStr (loadAndCheckFloat v x)
      | none => "bad-op"
    | _, _, _ => "bad-op"
  | ["V", v] =>
    match fromHex v with
    | some v => "c=" ++ b (isCompliant v)
    | none => "bad-op"
  | ["T", v] =>
    match fromHex v with
    | some v => " ".intercalate ("t" :: (tokenize v).map fun t => toHex t ++ ":" ++ b (isNumber t))
    | none => "bad-op"
  | ["N", v] =>
    match fromHex v with
    | some s =>
      let d := toDouble s
      let ds := match d with | some d => dblStr d | none => "E"
      let ss := match d with | some d => toHex (dblToString d) | none => "E"
      s!"n int={b (isInt s)} flt={b (isFloat s)} big={optIntStr (toBigNumber s)} dbl={ds} str={ss}"
    | none => "bad-op"
  | ["S", m, e] =>
    match parseInt m, parseInt e with
    | some m, some e =>
      match mkDbl m e with
      | some x => "s " ++ toHex (dblToString x)
      | none => "bad-op"
    | _, _ => "bad-op"
  | ["C", x] =>
    match parseInt x with
    | some x => "d " ++ dblStr (ofInt64 x)
    | none => "bad-op"
  | ["A", v, nb, ib, k] =>
    match fromHex v with
    | some v =>
      let known : Option Int := if k == "-" then none else parseInt k
      if k != "-" && known.isNone then "bad-op"
      else match argDecision v (nb == "1") (ib == "1") known with
        | some r => s!"v={b r.invalidValue} b={b r.notBool} r={b r.boolRange}"
        | none => "E"
    | none => "bad-op"
  | "D" :: ncall :: fmt :: decls =>
    match ncall.toNat?, fmt.toNat?, parseDecls decls with
    | some ncall, some fmt, some ds =>
      let f : FuncCfg := { fmt := fmt, args := loadArgs ds }
      let per := (List.range ncall).map fun (i : Nat) =>
        let k : Int := Int.ofNat i + 1
        s!"{k}:{b (isnullargbad f ncall k)}{b (isboolargbad f ncall k)}{b (isuninitargbad f ncall k 0)}{b (isuninitargbad f ncall k 1)}{b (isuninitargbad f ncall k 2)}{b (hasValid f ncall k)}"
      " ".intercalate (["load=0", "lib=" ++ b (matchArguments f ncall)] ++ per)
    | _, _, _ => "bad-op"
  | _ => "bad-op"

end Driver.C30

def main : IO Unit := Driver.mainLoop Driver.C30.step

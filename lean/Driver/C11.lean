import Driver.Common
import Cppcheck.Model.PPMacro
open Cppcheck.Wire Cppcheck.PPCond Cppcheck.PPMacro

/-
Line protocol (one op per line):
  ev <defs> <hexexpr>               -> "V <n>" | "E div0|divov|invalid|fnmacro|other"     (simplecpp `#if` evaluator on the text)
  pp <q> <defs> <undefs> <hexsrc>   (q = four 0/1 flags: Quirks.vaComma, stringSpace, elifEval, pasteBlue; 1101 = the code since 8474bf0)
                                    -> "T <hex of output tokens joined by one space>" | "E <class>" | "X <why>" (outside the fragment)
  mp <q> <hexsrc> <defs>+           -> "M <T hex | E.. | X..> ..."   `runPasses`: one result per pass
  sk <q> <defs> <undefs> <hexsrc>   -> "K <line numbers runC keeps on the skeleton> | <line numbers the directive loop keeps>" | "X .."
  cd <hex userDefines> <undefs> <hex cfg> <hexsrc>   -> same, through the model of createDUI
  spec|specpf <defs> <ast>          -> "<hex printed text> <S v u | U> <class> <V n | E cls>"   specification value, agreement class
                                       ("agree" or the first failing hypothesis of ifeval_eq_spec), model value
        ast (prefix, space free): l<base>.<n>.<u>.<lsuf>  D<hexname>  P<hexname> (defined with parentheses)  I<hexname>
                                  u<op>(<ast>)  b<op>(<ast>,<ast>)  c(<ast>,<ast>,<ast>)      op = index into the enum
  defs / undefs: comma separated hex strings, "-" = none
-/
namespace Driver.C11

def parseList (s : String) : Option (List (List Char)) :=
  if s == "-" then some [] else (s.splitOn ",").mapM fromHex

def errStr : Cppcheck.PPCond.Err → String
  | .div0 => "div0" | .divov => "divov" | .invalid => "invalid" | .fnmacro => "fnmacro" | .other => "other"

def joinToks (l : List Tok) : List Char := (" ".intercalate (l.map String.ofList)).toList

def xerrStr : XErr → String
  | .wrongArgs => "E syntax:wrongargs"
  | .unterminated => "X unterminated"
  | .joining => "X joining"
  | .badDefine => "E syntax:define"
  | .hashhash => "X hashhash"
  | .errorDirective => "E error"
  | .noIf => "E syntax:noif"
  | .syntax => "E syntax:if"
  | .unsupported => "X unsupported"
  | .cond e => "E syntax:cond:" ++ errStr e
  | .condSyntax => "E syntax:cond:other"

def ppOut (r : Except XErr (List Tok)) : String :=
  match r with
  | .ok l => "T " ++ toHex (joinToks l)
  | .error e => xerrStr e

def unOps : List UnOp := [.not, .neg, .pos, .compl]
def binOps : List BinOp := [.mul, .div, .mod, .add, .sub, .shl, .shr, .eq, .ne, .gt, .ge, .lt, .le, .band, .bxor, .bor, .land, .lor]

/-- prefix AST parser: returns the tree and the remaining characters -/
partial def parseE (s : List Char) : Option (E × List Char) :=
  let num (s : List Char) : Nat × List Char :=
    let d := s.takeWhile Char.isDigit
    ((String.ofList d).toNat!, s.drop d.length)
  let hexname (s : List Char) : Option (List Char × List Char) :=
    let d := s.takeWhile fun c => c.isDigit || ('a' ≤ c && c ≤ 'f')
    (fromHexAux d).map fun n => (n, s.drop d.length)
  match s with
  | 'l' :: r =>
    let (b, r) := num r
    let (n, r) := num (r.drop 1)
    let (u, r) := num (r.drop 1)
    let (ls, r) := num (r.drop 1)
    some (.lit ⟨b, n, u == 1, ls⟩, r)
  | 'D' :: r => (hexname r).map fun (n, r) => (.defd n false, r)
  | 'P' :: r => (hexname r).map fun (n, r) => (.defd n true, r)
  | 'I' :: r => (hexname r).map fun (n, r) => (.ident n, r)
  | 'u' :: r =>
    let (o, r) := num r
    match parseE (r.drop 1), unOps[o]? with
    | some (e, r), some o => some (.un o e, r.drop 1)
    | _, _ => none
  | 'b' :: r =>
    let (o, r) := num r
    match parseE (r.drop 1), binOps[o]? with
    | some (a, r), some o =>
      match parseE (r.drop 1) with
      | some (b, r) => some (.bin o a b, r.drop 1)
      | none => none
    | _, _ => none
  | 'c' :: r =>
    match parseE (r.drop 1) with
    | some (c, r) =>
      match parseE (r.drop 1) with
      | some (t, r) =>
        match parseE (r.drop 1) with
        | some (f, r) => some (.cond c t f, r.drop 1)
        | none => none
      | none => none
    | none => none
  | _ => none

/-- the condition through the whole pipeline: dui.defines -> macro table, `defined`, macro replacement, evaluate -/
def evalText (defs : List (List Char)) (text : List Char) : String :=
  match initMacros defs [] with
  | .error _ => "E other"
  | .ok ms =>
    match condTokens ms ((lexLine text).map (·.s)) with
    | .error _ => "E other"
    | .ok l =>
      match expand Quirks.code ms [] (l.map fun s => ⟨s, false⟩) with
      | .error _ => "E other"
      | .ok x =>
        match evaluate (x.map (·.s)) with
        | .ok v => s!"V {v}"
        | .error e => "E " ++ errStr e

/-- the function the theorems of Props/C11.lean are about -/
def evalIfText (defs : List (List Char)) (l : List Tok) : String :=
  let isDef (x : Tok) : Bool := defs.any fun d => defName d == x
  match evalIf isDef l with
  | .ok v => s!"V {v}"
  | .error e => "E " ++ errStr e

def quirks (s : String) : Quirks :=
  match s.toList with
  | [a, b, c, d] => ⟨a == '1', b == '1', c == '1', d == '1', false⟩
  | [a, b, c, d, e] => ⟨a == '1', b == '1', c == '1', d == '1', e == '1'⟩
  | _ => Quirks.code

def step (line : String) : String :=
  match fields line with
  | ["ev", defs, e] =>
    match parseList defs, fromHex e with
    | some defs, some e => evalText defs e
    | _, _ => "bad-op"
  | ["pp", q, defs, undefs, src] =>
    match parseList defs, parseList undefs, fromHex src with
    | some defs, some undefs, some src => ppOut (runFile (quirks q) defs undefs src)
    | _, _, _ => "bad-op"
  | "mp" :: q :: src :: passes =>
    match fromHex src, passes.mapM parseList with
    | some src, some ds =>
      "M " ++ " ".intercalate ((runPasses (quirks q) src (ds.map fun d => (d, []))).map fun r =>
        match r with
        | .ok l => "T" ++ toHex (joinToks l)
        | .error e => (xerrStr e).replace " " "")
    | _, _ => "bad-op"
  | ["sk", q, defs, undefs, src] =>
    -- the inclusion skeleton of the run: lines kept by the abstract machine runC on it vs lines kept by the directive loop
    match parseList defs, parseList undefs, fromHex src with
    | some defs, some undefs, some src =>
      match initMacros defs undefs with
      | .error _ => "X init"
      | .ok ms =>
        let ls := (splitLines src).map lexLine
        let st : PState := ⟨ms, [], []⟩
        match skelLines (quirks q) undefs st 0 ls, keptLines (quirks q) undefs st 0 ls with
        | .ok sk, .ok k =>
          let a := match runC [] sk with
            | some l => " ".intercalate (l.map toString)
            | none => "none"
          s!"K {a} | {" ".intercalate (k.map toString)}"
        | _, _ => "X error"
    | _, _, _ => "bad-op"
  | ["cd", ud, undefs, cfg, src] =>
    match fromHex ud, parseList undefs, fromHex cfg, fromHex src with
    | some ud, some undefs, some cfg, some src => ppOut (runFile Quirks.code (duiDefines ud cfg) undefs src)
    | _, _, _, _ => "bad-op"
  | [op, defs, ast] =>
    -- spec: minimal parentheses (`print`);  specpf: every compound operand parenthesised (`printPF`, theorem ifeval_eq_spec_paren)
    if op != "spec" && op != "specpf" then "bad-op" else
    match parseList defs, parseE ast.toList with
    | some defs, some (e, []) =>
      let isDef (x : Tok) : Bool := defs.any fun d => defName d == x
      let toks := if op == "spec" then print e else printPF e
      let text := joinToks toks
      let sv := match value isDef e with
        | some v => s!"S {v.v} {boolStr v.u}"
        | none => "U"
      let cls0 := (firstFailing isDef e).getD "agree"
      let cls := if op == "specpf" && (cls0 == "mix" || cls0 == "chain") then "agree" else cls0
      -- the printed tokens through `evalIf` (theorems) and the text through lexer + macro table (tie): must coincide
      let a := evalIfText defs toks
      let b := evalText defs text
      s!"{toHex text} {sv} {cls} {if a == b then a else "SELF-MISMATCH"}"
    | _, _ => "bad-op"
  | _ => "bad-op"

end Driver.C11

def main : IO Unit := Driver.mainLoop Driver.C11.step

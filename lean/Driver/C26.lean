import Driver.Common
import Cppcheck.Model.XmlEsc
import Cppcheck.Model.Template
import Cppcheck.Model.Sarif
open Cppcheck.Wire Cppcheck.XmlEsc

namespace Driver.C26

def parseLocs : Nat → List String → Option (List Loc × List String)
  | 0, r => some ([], r)
  | n + 1, file :: orig :: line :: col :: info :: r =>
    match fromHex file, fromHex orig, line.toInt?, col.toNat?, fromHex info, parseLocs n r with
    | some file, some orig, some line, some col, some info, some (ls, r') =>
      some ({ file := file, origFile := orig, line := line, column := col, info := info } :: ls, r')
    | _, _, _, _, _, _ => none
  | _, _ => none

/-- id guideline classification sev cwe hash inc file0 short verbose symbols remark nloc {file origfile line col info}* -/
def parseFinding : List String → Option (Finding × List String)
  | id :: gl :: cl :: sev :: cwe :: hash :: inc :: file0 :: sh :: vb :: sym :: rem :: nloc :: r =>
    match fromHex id, fromHex gl, fromHex cl, sev.toNat?, cwe.toNat?, hash.toNat?, fromHex file0, fromHex sh, fromHex vb,
          fromHex sym, fromHex rem, nloc.toNat? with
    | some id, some gl, some cl, some sev, some cwe, some hash, some file0, some sh, some vb, some sym, some rem, some nloc =>
      match parseLocs nloc r with
      | some (ls, r') =>
        some ({ id := id, guideline := gl, classification := cl, severity := sev, cwe := cwe, hash := hash,
                inconclusive := inc == "1", file0 := file0, shortMsg := sh, verboseMsg := vb, symbols := sym,
                remark := rem, stack := ls }, r')
      | none => none
    | _, _, _, _, _, _, _, _, _, _, _, _ => none
  | _ => none

def parseFindings : Nat → List String → Option (List Finding)
  | 0, [] => some []
  | 0, _ => none
  | n + 1, r =>
    match parseFinding r with
    | some (f, r') => (parseFindings n r').map (f :: ·)
    | none => none

def noSrc : Loc → Str := fun _ => []

def attrsStr (as : List (Str × Str)) : String :=
  if as.isEmpty then "-" else ",".intercalate (as.map fun (n, v) => String.ofList n ++ "=" ++ toHex v)

/-- canonical text of a re-read `<error>`: attrs | loc;loc;… | sym,sym,… -/
def xerrStr (x : XErr) : String :=
  attrsStr x.attrs ++ "|" ++ (if x.locs.isEmpty then "-" else ";".intercalate (x.locs.map attrsStr)) ++ "|" ++
  (if x.syms.isEmpty then "-" else ",".intercalate (x.syms.map toHex))

def evStr : Ev → String
  | .opn n as => "O:" ++ String.ofList n ++ ":" ++ attrsStr as
  | .cls n => "C:" ++ String.ofList n
  | .txt t => "T:" ++ toHex t

def step (line : String) : String :=
  match fields line with
  | ["fix", s] => match fromHex s with
    | some s => toHex (fixInvalidChars s)
    | none => "bad-op"
  | ["toxml", s] => match fromHex s with
    | some s => toHex (toxml s)
    | none => "bad-op"
  | ["ps", r, s] => match fromHex s with
    | some s => toHex (printString (r == "1") s)
    | none => "bad-op"
  | "xml" :: r => match parseFinding r with
    | some (f, []) =>
      let doc := toXML f
      let p := parseError doc
      s!"{toHex doc} wf={boolStr (wf doc)} rawok={boolStr (RawOK f)} rt={boolStr (p == some (sanitize f))} {match p with | some x => xerrStr x | none => "none"}"
    | _ => "bad-op"
  | ["rdxml", d] => match fromHex d with
    | some d => match readXml d with
      | some evs => "wf=1 " ++ " ".intercalate (evs.map evStr)
      | none => "wf=0"
    | none => "bad-op"
  | "str" :: brk :: vb :: tf :: tl :: r =>
    match fromHex tf, fromHex tl, parseFinding r with
    | some tf, some tl, some (f, []) =>
      match Cppcheck.Template.toString (brk == "1") noSrc f (vb == "1") tf tl with
      | some t => toHex t
      | none => "hang"
    | _, _, _ => "bad-op"
  | ["static", er, co, s] => match fromHex s with
    | some s => toHex (Cppcheck.Template.substituteStatic (er == "1") (co == "1") s)
    | none => "bad-op"
  | "sarif" :: ver :: n :: r =>
    match fromHex ver, n.toNat? with
    | some ver, some n =>
      match parseFindings n r with
      | some fs => toHex (Cppcheck.Sarif.sarifDefault ver fs)
      | none => "bad-op"
    | _, _ => "bad-op"
  | "strc" :: brk :: vb :: tf :: tl :: k :: r =>
    -- toString with source files: k triples  <origfile> <line> <text of that line as readCode shows it>  then the finding
    let rec triples : Nat → List String → Option (List (Str × Int × Str) × List String)
      | 0, r => some ([], r)
      | n + 1, o :: l :: t :: r =>
        match fromHex o, l.toInt?, fromHex t, triples n r with
        | some o, some l, some t, some (ts, r') => some ((o, l, t) :: ts, r')
        | _, _, _, _ => none
      | _, _ => none
    match fromHex tf, fromHex tl, k.toNat? with
    | some tf, some tl, some k =>
      match triples k r with
      | some (ts, r') =>
        match parseFinding r' with
        | some (f, []) =>
          let files : Str → Int → Str := fun path line =>
            match ts.find? (fun t => t.1 == path && t.2.1 == line) with
            | some t => t.2.2
            | none => []
          match Cppcheck.Template.toString (brk == "1") (Cppcheck.Template.srcOf files) f (vb == "1") tf tl with
          | some t => toHex t
          | none => "hang"
        | _ => "bad-op"
      | none => "bad-op"
    | _, _, _ => "bad-op"
  | "std" :: brk :: vb :: tf :: tl :: n :: r =>
    -- StdLogger duplicate filter keyed by the text rendering: indices of the findings handed to the writer
    match fromHex tf, fromHex tl, n.toNat? with
    | some tf, some tl, some n =>
      match parseFindings n r with
      | some fs =>
        let render := fun f => (Cppcheck.Template.toString (brk == "1") noSrc f (vb == "1") tf tl).getD []
        if fs.any (fun f => (Cppcheck.Template.toString (brk == "1") noSrc f (vb == "1") tf tl).isNone) then "noreturn" else
        let kept := Cppcheck.Template.stdLogger render fs
        -- findings are compared structurally; report positions (first occurrence of each kept finding, in order)
        let rec pos (ks : List Finding) (all : List Finding) (i : Nat) : List Nat :=
          match ks, all with
          | [], _ => []
          | _, [] => []
          | k :: kr, a :: ar => if k == a then i :: pos kr ar (i + 1) else pos (k :: kr) ar (i + 1)
        " ".intercalate ((pos kept fs 0).map toString) ++ " |" ++ String.join (kept.map fun f => " " ++ toHex (render f))
      | none => "bad-op"
    | _, _, _ => "bad-op"
  | ["jparse", d] =>
    -- the strict JSON reader of the model on a SARIF document: results as  id text level n {uri line col}*  joined by " ; "
    match fromHex d with
    | some d =>
      match Cppcheck.Sarif.jsonParse d with
      | none => "json=0"
      | some j =>
        match Cppcheck.Sarif.reportResults j with
        | none => "json=1 results=none"
        | some rs =>
          let one (r : Cppcheck.Sarif.Json) : String :=
            match Cppcheck.Sarif.readResult r with
            | none => "unreadable"
            | some x => s!"{toHex x.ruleId} {toHex x.text} {String.ofList x.level} {x.locs.length}" ++
                String.join (x.locs.map fun (u, l, c) => s!" {toHex u} {l} {c}")
          "json=1 " ++ " ; ".intercalate (rs.map one)
    | none => "bad-op"
  | ["crit"] => " ".intercalate Cppcheck.Sarif.criticalIds
  | _ => "bad-op"

end Driver.C26

def main : IO Unit := Driver.mainLoop Driver.C26.step

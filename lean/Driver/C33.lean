import Driver.Common
import Cppcheck.Model.Match
open Cppcheck.Wire Cppcheck.Match

namespace Driver.C33

def cmdName : Cmd → String
  | .any => "any" | .assign => "assign" | .bool => "bool" | .char => "char" | .comp => "comp"
  | .num => "num" | .cop => "cop" | .op => "op" | .or => "or" | .oror => "oror" | .str => "str"
  | .type => "type" | .name => "name" | .var => "var" | .varid => "varid"

def tyCode : TokType → Nat
  | .eVariable => 0 | .eType => 1 | .eFunction => 2 | .eKeyword => 3 | .eName => 4
  | .eNumber => 5 | .eString => 6 | .eChar => 7 | .eBoolean => 8 | .eLiteral => 9 | .eEnumerator => 10
  | .eArithmeticalOp => 11 | .eComparisonOp => 12 | .eAssignmentOp => 13 | .eLogicalOp => 14
  | .eBitOp => 15 | .eIncDecOp => 16 | .eExtendedOp => 17
  | .eBracket => 18 | .eLambda => 19 | .eEllipsis => 20 | .eOther => 21 | .eNone => 22

def condStr : Cond → String
  | .cmd c => "cmd:" ++ cmdName c
  | .varidName => "varidname"
  | .lit s tys => "lit:" ++ toHex s ++ ":" ++ ",".intercalate (tys.map fun t => toString (tyCode t))

def stepStr : Step → String
  | .next => "N"
  | .nextSafe => "NS"
  | .checkVarid => "CV"
  | .cls cs => "CLS:" ++ toHex cs
  | .require cs => "REQ:" ++ "|".intercalate (cs.map condStr)
  | .optional cs => "OPT:" ++ "|".intercalate (cs.map condStr)
  | .reject s => "REJ:" ++ toHex s

def progStr (p : Prog) : String := if p.isEmpty then "-" else ";".intercalate (p.map stepStr)

def parseToks : List String → Option (List Tok)
  | [] => some []
  | s :: ty :: v :: nm :: r =>
    match fromHex s, ty.toNat?, v.toNat?, parseToks r with
    | some s, some ty, some v, some ts => some (⟨s, TokType.ofCode ty, v, nm == "1"⟩ :: ts)
    | _, _, _, _ => none
  | _ => none

def optNat (s : String) : Option (Option Nat) :=
  if s == "-" then some none else s.toNat?.map some

/-- op `match <kind> <hexpattern> <varid> <hasVarid> <start> <end|-> {<hexstr> <type> <varid> <isName>}*`
    kinds: M Token::Match, S simpleMatch, FM findmatch, FS findsimplematch (`start`/`end` = token numbers,
    `-` = the form without `end`).  Output: interpreted | compiled | documented language | hypotheses. -/
def step (line : String) : String :=
  match fields line with
  | ["compile", p, hv] =>
    match fromHex p with
    | some p =>
      let hv := hv == "1"
      s!"{progStr (compile p hv)} wf={boolStr (patternWF p)} swf={boolStr (simplePatternWF p)} uv={boolStr (usesVarid (parse p))} nn={boolStr (noNul p)}"
    | none => "bad-op"
  | "match" :: kind :: p :: v :: hv :: st :: en :: toks =>
    match fromHex p, v.toNat?, st.toNat?, optNat en, parseToks toks with
    | some p, some v, some st, some en, some all =>
      let hv := hv == "1"
      let ts := all.drop st
      let hyp := s!"twf {boolStr (ts.all TokWF)} | tsok {boolStr (ts.all TokStrOK)}"
      let pr := compile p hv
      if kind == "M" then
        s!"I {(interpB p ts v).toString} | C {(run pr ts v).toString} | S {(lang (parse p) ts v).toString} | {hyp}"
      else if kind == "S" then
        s!"I {boolStr (simpleMatchB p ts)} | C {(run pr ts v).toString} | S {(lang (parse p) ts v).toString} | {hyp}"
      else
        let budget := endBudget all.length st en
        let first := (findWith (fun ts' => lang (parse p) ts' v) ts budget).toString
        if kind == "FM" then
          s!"I {(findInterp p v ts budget).toString} | C {findFromStr (findFrom pr v ts 0 budget)} | S {first} | {hyp}"
        else if kind == "FS" then
          s!"I {(findSimpleInterp p ts budget).toString} | C {findFromStr (findFrom pr v ts 0 budget)} | S {first} | {hyp}"
        else "bad-op"
    | _, _, _, _, _ => "bad-op"
  | _ => "bad-op"

end Driver.C33

def main : IO Unit := Driver.mainLoop Driver.C33.step

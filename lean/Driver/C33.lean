import Driver.Common
import Cppcheck.Model.Match
open Cppcheck.Wire Cppcheck.Match

namespace Driver.C33

def cmdName : Cmd → String
  | .any => "any" | .assign => "assign" | .bool => "bool" | .char => "char" | .comp => "comp"
  | .num => "num" | .cop => "cop" | .op => "op" | .or => "or" | .oror => "oror" | .str => "str"
  | .type => "type" | .name => "name" | .var => "var" | .varid => "varid"

def tyCode : TokType → Nat
  | .eVariable => 0 | .eType => 1 | .eFunction => 2 | .eKeyword => 3 | .eName => 4
  | .eNumber => 5 | .eString => 6 | .eChar => 7 | .eBoolean => 8 | .eLiteral => 9 | .eEnumerator => 10
  | .eArithmeticalOp => 11 | .eComparisonOp => 12 | .eAssignmentOp => 13 | .eLogicalOp => 14
  | .eBitOp => 15 | .eIncDecOp => 16 | .eExtendedOp => 17
  | .eBracket => 18 | .eLambda => 19 | .eEllipsis => 20 | .eOther => 21 | .eNone => 22

def condStr : Cond → String
  | .cmd c => "cmd:" ++ cmdName c
  | .varidName => "varidname"
  | .lit s tys => "lit:" ++ toHex s ++ ":" ++ ",".intercalate (tys.map fun t => toString (tyCode t))

def stepStr : Step → String
  | .next => "N"
  | .nextSafe => "NS"
  | .checkVarid => "CV"
  | .cls cs => "CLS:" ++ toHex cs
  | .require cs => "REQ:" ++ "|".intercalate (cs.map condStr)
  | .optional cs => "OPT:" ++ "|".intercalate (cs.map condStr)
  | .reject s => "REJ:" ++ toHex s

def progStr (p : Prog) : String := if p.isEmpty then "-" else ";".intercalate (p.map stepStr)

def parseToks : List String → Option (List Tok)
  | [] => some []
  | s :: ty :: v :: nm :: r =>
    match fromHex s, ty.toNat?, v.toNat?, parseToks r with
    | some s, some ty, some v, some ts => some (⟨s, TokType.ofCode ty, v, nm == "1"⟩ :: ts)
    | _, _, _, _ => none
  | _ => none

def tokWF (t : Tok) : Bool :=
  (lookupTypes t.str tokTypes = [] || (lookupTypes t.str tokTypes).contains t.ty) && (t.varId = 0 || t.isName)

def findInterp (p : Str) (v : Nat) (simple : Bool) : List Tok → Nat → String
  | [], _ => "N"
  | t :: r, i =>
    let res := if simple then Res.ofBool (simpleMatchB p (t :: r)) else interpB p (t :: r) v
    match res with
    | .t => toString i
    | .err => "E"
    | .f => findInterp p v simple r (i + 1)

def findRunStr (pr : Prog) (v : Nat) : List Tok → Nat → String
  | [], _ => "N"
  | t :: r, i =>
    match run pr (t :: r) v with
    | .t => toString i
    | .err => "E"
    | .f => findRunStr pr v r (i + 1)

def step (line : String) : String :=
  match fields line with
  | ["compile", p, hv] =>
    match fromHex p with
    | some p =>
      let hv := hv == "1"
      s!"{progStr (compile p hv)} wf={boolStr (patternWF p)} swf={boolStr (simplePatternWF p)} uv={boolStr (usesVarid (parse p))}"
    | none => "bad-op"
  | "match" :: kind :: p :: v :: hv :: toks =>
    match fromHex p, v.toNat?, parseToks toks with
    | some p, some v, some ts =>
      let hv := hv == "1"
      let twf := ts.all tokWF
      let pr := compile p hv
      if kind == "M" then
        s!"I {(interpB p ts v).toString} | C {(run pr ts v).toString} | S {(sem (parse p) ts v).toString} | twf {boolStr twf}"
      else if kind == "S" then
        s!"I {boolStr (simpleMatchB p ts)} | C {(run pr ts v).toString} | S {(sem (parse p) ts v).toString} | twf {boolStr twf}"
      else if kind == "FM" then
        s!"I {findInterp p v false ts 0} | C {findRunStr pr v ts 0} | S - | twf {boolStr twf}"
      else if kind == "FS" then
        s!"I {findInterp p v true ts 0} | C {findRunStr pr v ts 0} | S - | twf {boolStr twf}"
      else "bad-op"
    | _, _, _ => "bad-op"
  | _ => "bad-op"

end Driver.C33

def main : IO Unit := Driver.mainLoop Driver.C33.step

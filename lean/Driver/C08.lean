import Driver.Common
import Cppcheck.Model.ScopeProg
import Cppcheck.Model.ClassVars
open Cppcheck.Wire Cppcheck.VarMap

/-
C08 driver.  op line:  prog <tokens of the program>        (encoding: see vlib/props/c08.py `enc_*`)
                       ops  <e|l|d<x>|D<x>|u<x>|g<x> ...>   raw VariableMap event list
output:  M <ids the model of the repaired code assigns> | S <ids lexical scoping assigns> | O <ids with the
         pre-fix replay order> | gok <progOK> | dup <dupInScope> | nvh <noEnumHidesVar>
-/
namespace Driver.C08

abbrev P (α : Type) := List String → Option (α × List String)

def pNat : P Nat
  | t :: r => t.toNat?.map (·, r)
  | [] => none

def pU : P U
  | t :: r =>
    if t.startsWith "g" then (t.drop 1).toNat?.map (fun n => (U.glob n, r))
    else t.toNat?.map (fun n => (U.loc n, r))
  | [] => none

def pMany {α : Type} (p : P α) : Nat → P (List α)
  | 0, ts => some ([], ts)
  | n + 1, ts =>
    match p ts with
    | some (a, r) => match pMany p n r with
      | some (as, r') => some (a :: as, r')
      | none => none
    | none => none

def pUs : P (List U) := fun ts =>
  match pNat ts with
  | some (k, r) => pMany pU k r
  | none => none

def pNames : P (List VName) := fun ts =>
  match pNat ts with
  | some (k, r) => pMany pNat k r
  | none => none

def pCond : P Cond
  | "c" :: r => (pUs r).map fun (us, r') => (Cond.expr us, r')
  | "d" :: r =>
    match pNat r with
    | some (x, r1) => (pUs r1).map fun (us, r') => (Cond.decl x us, r')
    | none => none
  | _ => none

def pForInit : P ForInit
  | "n" :: r => some (ForInit.none, r)
  | "e" :: r => (pUs r).map fun (us, r') => (ForInit.expr us, r')
  | "d" :: r =>
    match pNat r with
    | some (x, r1) => (pUs r1).map fun (us, r') => (ForInit.decl x us, r')
    | none => none
  | _ => none

mutual
partial def pStmt : P Stmt
  | "D" :: r =>
    match pNat r with
    | some (x, r1) => (pUs r1).map fun (us, r') => (Stmt.decl x us, r')
    | none => none
  | "X" :: r => (pUs r).map fun (us, r') => (Stmt.expr us, r')
  | "N" :: r =>
    match pNat r with
    | some (x, r1) => (pUs r1).map fun (us, r') => (Stmt.enumd x us, r')
    | none => none
  | "B" :: r => (pStmts r).map fun (b, r') => (Stmt.block b, r')
  | "I" :: r =>
    match pCond r with
    | some (c, r1) => (pStmts r1).map fun (t, r') => (Stmt.ifs c t, r')
    | none => none
  | "J" :: r =>
    match pCond r with
    | some (c, r1) =>
      match pStmts r1 with
      | some (t, r2) => (pStmts r2).map fun (e, r') => (Stmt.ifelse c t e, r')
      | none => none
    | none => none
  | "W" :: r =>
    match pCond r with
    | some (c, r1) => (pStmts r1).map fun (b, r') => (Stmt.whiles c b, r')
    | none => none
  | "O" :: r =>
    match pStmts r with
    | some (b, r1) => (pUs r1).map fun (c, r') => (Stmt.dowhile b c, r')
    | none => none
  | "R" :: r =>
    match pForInit r with
    | some (i, r1) =>
      match pUs r1 with
      | some (c, r2) =>
        match pUs r2 with
        | some (s, r3) => (pStmts r3).map fun (b, r') => (Stmt.fors i c s b, r')
        | none => none
      | none => none
    | none => none
  | _ => none
/-- statements up to and including the closing `E` -/
partial def pStmts : P Stmts
  | "E" :: r => some (Stmts.nil, r)
  | ts =>
    match pStmt ts with
    | some (s, r1) => (pStmts r1).map fun (b, r') => (Stmts.cons s b, r')
    | none => none
end

def pTop : P Top
  | "G" :: r =>
    match pNat r with
    | some (x, r1) => (pUs r1).map fun (us, r') => (Top.gdecl x us, r')
    | none => none
  | "F" :: r =>
    match pNames r with
    | some (ps, r1) => (pStmts r1).map fun (b, r') => (Top.func ps b, r')
    | none => none
  | "P" :: r => (pNames r).map fun (ps, r') => (Top.proto ps, r')
  | "M" :: r =>
    match pNat r with
    | some (x, r1) => (pUs r1).map fun (us, r') => (Top.genum x us, r')
    | none => none
  | _ => none

partial def pProg : List String → Option Prog
  | [] => some []
  | ts =>
    match pTop ts with
    | some (t, r) => (pProg r).map (t :: ·)
    | none => none

def pOp (t : String) : Option Op :=
  if t == "e" then some .enter
  else if t == "l" then some .leave
  else if t.startsWith "d" then (t.drop 1).toNat?.map (Op.decl · false)
  else if t.startsWith "D" then (t.drop 1).toNat?.map (Op.decl · true)
  else if t.startsWith "u" then (t.drop 1).toNat?.map Op.use
  else if t.startsWith "g" then (t.drop 1).toNat?.map Op.guse
  else if t == "s" then some .skip
  else if t.startsWith "h" then (t.drop 1).toNat?.map Op.hide
  else none

def ids (l : List VId) : String := if l.isEmpty then "-" else " ".intercalate (l.map toString)

/-- `cls <n> {<nb> b.. <no> {x id}..}* <i> <x>` : the member table of setVarIdPass2 and C++ member lookup -/
def pPairs : Nat → List String → Option (List (VName × VId) × List String)
  | 0, ts => some ([], ts)
  | n + 1, a :: b :: r =>
    match a.toNat?, b.toNat?, pPairs n r with
    | some x, some i, some (ps, r') => some ((x, i) :: ps, r')
    | _, _, _ => none
  | _, _ => none

def pClasses : Nat → List String → Option (List ClassDecl × List String)
  | 0, ts => some ([], ts)
  | n + 1, ts =>
    match pNames ts with
    | some (bs, r1) =>
      match pNat r1 with
      | some (no, r2) =>
        match pPairs no r2 with
        | some (own, r3) =>
          match pClasses n r3 with
          | some (cs, r4) => some (⟨bs, own⟩ :: cs, r4)
          | none => none
        | none => none
      | none => none
    | none => none

def mresStr : MRes → String
  | .notFound => "notfound"
  | .found v => s!"found:{v}"
  | .ambiguous => "ambiguous"

def step (line : String) : String :=
  match fields line with
  | "cls" :: ts =>
    match pNat ts with
    | some (n, r) =>
      match pClasses n r with
      | some (cs, [i, x]) =>
        match i.toNat?, x.toNat? with
        | some i, some x => s!"T {classVarId cs i x} | L {mresStr (memberLookup cs (i + 1) i x)} | wf {boolStr (classesWF cs)} | single {boolStr (singleInheritance cs)}"
        | _, _ => "bad-cls"
      | _ => "bad-cls"
    | none => "bad-cls"
  | "prog" :: ts =>
    match pProg ts with
    | some p =>
      let ops := implProg p
      s!"M {ids (resolve p)} | S {ids (specProg p)} | O {ids (resolveOld p)} | gok {boolStr (progOK [] p)} | dup {boolStr (dupInScope [] ops)} | nvh {boolStr (noEnumHidesVar p)}"
    | none => "bad-prog"
  | "ops" :: ts =>
    match ts.mapM pOp with
    | some ops =>
      s!"M {ids (run VarMap.init ops)} | S {ids (srun Spec.init ops)} | O {ids (runOld VarMap.init ops)} | gok {boolStr (globalOK 0 [] ops)} | dup {boolStr (dupInScope [] ops)} | nvh {boolStr (noVarHidden Spec.init ops)}"
    | none => "bad-ops"
  | _ => "bad-op"

end Driver.C08

def main : IO Unit := Driver.mainLoop Driver.C08.step

import Driver.Common
import Cppcheck.Model.Lexer
import Cppcheck.Model.MatchEquiv
import Cppcheck.Gen.Reserved
import Cppcheck.Model.PerFunction
open Cppcheck.Wire Cppcheck.Lexer

namespace Driver.C05

def tokStr (t : RTok) : String :=
  s!"{toHex t.str}:{t.line}:{t.col}:{boolStr t.name}{boolStr t.number}{boolStr t.comment}:{t.op.toNat}"

def toksStr (ts : List RTok) : String :=
  if ts.isEmpty then "T" else "T " ++ " ".intercalate (ts.map tokStr)

def parsePairs : List String → Option (List (Str × Str))
  | [] => some []
  | k :: v :: r =>
    match fromHex k, fromHex v, parsePairs r with
    | some k, some v, some ps => some ((k, v) :: ps)
    | _, _, _ => none
  | _ => none

def parseMToks : List String → Option (List Cppcheck.Match.Tok)
  | [] => some []
  | s :: ty :: v :: nm :: r =>
    match fromHex s, ty.toNat?, v.toNat?, parseMToks r with
    | some s, some ty, some v, some ts => some (⟨s, Cppcheck.Match.TokType.ofCode ty, v, nm == "1"⟩ :: ts)
    | _, _, _, _ => none
  | _ => none

def parseElem (f : String) : Option Elem :=
  let k := f.take 1
  let arg := (f.drop 1).toString
  if f == "n" then some .nl
  else match fromHex (if arg == "" then "-" else arg) with
    | none => none
    | some s =>
      if k == "w" then (match s with | [c] => some (.ws c) | _ => none)
      else if k == "l" then some (.lcom s)
      else if k == "b" then some (.bcom s)
      else if k == "d" then some (.word s)
      else if k == "o" then (match s with | [c] => some (.op c) | _ => none)
      else if k == "q" then (match s with | q :: i => some (.lit q i) | [] => none)
      else none

def parseElems : List String → Option (List Elem)
  | [] => some []
  | f :: r =>
    match parseElem f, parseElems r with
    | some e, some es => some (e :: es)
    | _, _ => none

def splitBar : List String → List String × List String
  | [] => ([], [])
  | f :: r => if f == "|" then ([], r) else let p := splitBar r; (f :: p.1, p.2)

def optToks (o : Option (List RTok)) : String :=
  match o with
  | none => "U"
  | some ts => toksStr ts

open Cppcheck.PerFunction in
def parseItems (s : String) : List Item :=
  (s.splitOn ",").filterMap fun w =>
    if w == "t" then some Item.throw
    else if w.startsWith "c" then (w.drop 1).toString.toNat?.map Item.call
    else none

open Cppcheck.PerFunction in
/-- `<kind><declThrows>:<items>` e.g. `10:c1,t` -/
def parseFn (f : String) : Option Fn :=
  match f.splitOn ":" with
  | [hd, items] =>
    match (hd.take 1).toString.toNat?, (hd.drop 1).toString with
    | some k, d => some ⟨k, d == "1", if items == "-" then [] else parseItems items⟩
    | _, _ => none
  | _ => none

def step (line : String) : String :=
  match fields line with
  | ["lex", src] =>
    match fromHex src with
    | some s =>
      match lexAll s with
      | none => "U"
      | some ts => toksStr ts
    | none => "bad-op"
  | ["tokens", src] =>
    match fromHex src with
    | some s =>
      match tokens s with
      | none => "U"
      | some ts => toksStr ts
    | none => "bad-op"
  | "avoids" :: pairs =>
    match parsePairs pairs with
    | some ps => boolStr ((Cppcheck.MatchEquiv.Renaming.mk ps).avoids Cppcheck.Gen.Reserved.reserved)
    | none => "bad-op"
  | "layout" :: fs =>
    let p := splitBar fs
    match parseElems p.1, parseElems p.2 with
    | some es, some es' =>
      let ts := placeE 1 1 es
      let ts' := placeE 1 1 es'
      let φ := tableMap ((ts.map RTok.pos).zip (ts'.map RTok.pos))
      let rel := decide (ts' = ts.map (reloc φ))
      let pres := presB φ (ts.map RTok.pos) (opPositions ts)
      let dots := dotsOKB ts
      s!"ok={boolStr (elemsOK es)} ok2={boolStr (elemsOK es')} rel={boolStr rel} pres={boolStr pres} dots={boolStr dots} src={toHex (renderE es)} src2={toHex (renderE es')} | {toksStr ts} | {toksStr ts'} | {optToks (tokens (renderE es))} | {optToks (tokens (renderE es'))}"
    | _, _ => "bad-op"
  | "nothrow" :: order :: fns =>
    let defs := (order.splitOn ",").filterMap String.toNat?
    let P := fns.filterMap parseFn
    if P.length != fns.length then "bad-op"
    else "F " ++ " ".intercalate ((Cppcheck.PerFunction.nothrowThrows P defs).map fun x => s!"{x.1}:{x.2.1}:{x.2.2}")
  | ["reserved"] =>
    " ".intercalate (Cppcheck.Gen.Reserved.reserved.map toHex)
  | ["patlits", p] =>
    match fromHex p with
    | some p => "L " ++ " ".intercalate ((Cppcheck.MatchEquiv.patLits p).map toHex)
    | none => "bad-op"
  | "sem" :: p :: v :: toks =>
    match fromHex p, v.toNat?, parseMToks toks with
    | some p, some v, some ts => (Cppcheck.Match.sem (Cppcheck.Match.parse p) ts v).toString
    | _, _, _ => "bad-op"
  | _ => "bad-op"

end Driver.C05

def main : IO Unit := Driver.mainLoop Driver.C05.step

import Driver.Common
import Cppcheck.Model.Lexer
import Cppcheck.Model.MatchEquiv
import Cppcheck.Gen.Reserved
open Cppcheck.Wire Cppcheck.Lexer

namespace Driver.C05

def tokStr (t : RTok) : String :=
  s!"{toHex t.str}:{t.line}:{t.col}:{boolStr t.name}{boolStr t.number}{boolStr t.comment}:{t.op.toNat}"

def toksStr (ts : List RTok) : String :=
  if ts.isEmpty then "T" else "T " ++ " ".intercalate (ts.map tokStr)

def parsePairs : List String → Option (List (Str × Str))
  | [] => some []
  | k :: v :: r =>
    match fromHex k, fromHex v, parsePairs r with
    | some k, some v, some ps => some ((k, v) :: ps)
    | _, _, _ => none
  | _ => none

def parseMToks : List String → Option (List Cppcheck.Match.Tok)
  | [] => some []
  | s :: ty :: v :: nm :: r =>
    match fromHex s, ty.toNat?, v.toNat?, parseMToks r with
    | some s, some ty, some v, some ts => some (⟨s, Cppcheck.Match.TokType.ofCode ty, v, nm == "1"⟩ :: ts)
    | _, _, _, _ => none
  | _ => none

def step (line : String) : String :=
  match fields line with
  | ["lex", src] =>
    match fromHex src with
    | some s =>
      match lexAll s with
      | none => "U"
      | some ts => toksStr ts
    | none => "bad-op"
  | ["tokens", src] =>
    match fromHex src with
    | some s =>
      match tokens s with
      | none => "U"
      | some ts => toksStr ts
    | none => "bad-op"
  | "avoids" :: pairs =>
    match parsePairs pairs with
    | some ps => boolStr ((Cppcheck.MatchEquiv.Renaming.mk ps).avoids Cppcheck.Gen.Reserved.reserved)
    | none => "bad-op"
  | ["reserved"] =>
    " ".intercalate (Cppcheck.Gen.Reserved.reserved.map toHex)
  | ["patlits", p] =>
    match fromHex p with
    | some p => "L " ++ " ".intercalate ((Cppcheck.MatchEquiv.patLits p).map toHex)
    | none => "bad-op"
  | "sem" :: p :: v :: toks =>
    match fromHex p, v.toNat?, parseMToks toks with
    | some p, some v, some ts => (Cppcheck.Match.sem (Cppcheck.Match.parse p) ts v).toString
    | _, _, _ => "bad-op"
  | _ => "bad-op"

end Driver.C05

def main : IO Unit := Driver.mainLoop Driver.C05.step

import Cppcheck.Model.Wire
/- stdin/stdout line loop used by every driver: one op per line in, one canonical line out -/
namespace Driver

partial def loop (h : IO.FS.Stream) (out : IO.FS.Stream) (step : String → String) : IO Unit := do
  let line ← h.getLine
  if line.isEmpty then return ()
  out.putStrLn (step line)
  loop h out step

def mainLoop (step : String → String) : IO Unit := do
  let i ← IO.getStdin
  let o ← IO.getStdout
  loop i o step
  o.flush

end Driver

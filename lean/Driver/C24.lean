import Driver.Common
import Cppcheck.Model.Unmatched
open Cppcheck.Wire Cppcheck.Unmatched

/-
Stateful line protocol (the state is the suppression list; `new` resets it).  A suppression travels as
  <hex id>:<hex file>:<line>:<hex symbol>:<hash>:<thisAndNextLine>:<type 0..5>:<lineBegin>:<lineEnd>:<column>:<inline>:<polyspace>:<checked>:<matched>:<hex macroName>
ops (parameters = answers of the real code, see harness/c24.cpp):
  new
  add <globsOk> <suppr>                      -> <ok|exists|noid|invalidid|invalidglob> | <state>
  upd <suppr>                                -> <0|1> | <state>
  sup <global> <hex msg id> <verdicts>       -> <0|1> | <state>      verdicts: one of N C M per entry, or -
  supx <global> <hex msg id> <verdicts>      -> <0|1> | <state>
  werr <showGlobal> <hex msg id> <verdicts> <verdicts>   -> <locally suppressed 0|1> | <state>   (`workerReportErr`)
  mark <n> (<hex file> <line>)*n             -> - | <state>
  recv <globsOk> <suppr>                     -> - | <state>       (<suppr> = the worker's entry; the parent sees `wire` of it)
  thread                                     -> - | <state>
  wire <skipHash>                            -> <suppr>* | <state>   (what a worker with this list sends)
  ul <pm bits> / ug / ui                     -> <suppr>* | <state>
  report <inline> <k> <pm bits>*k <filter bits>   -> <message>* | <state>
      message = <polyspace>:<hex id>:<hex file>:<line>:<column>
-/
namespace Driver.C24

def typeOfNat : Nat → SType
  | 0 => .unique | 1 => .file | 2 => .block | 3 => .blockBegin | 4 => .blockEnd | _ => .macro

def natOfType : SType → Nat
  | .unique => 0 | .file => 1 | .block => 2 | .blockBegin => 3 | .blockEnd => 4 | .macro => 5

def parseInt (s : String) : Option Int :=
  if s.startsWith "-" then (s.drop 1).toNat?.map (fun n => - (Int.ofNat n)) else s.toNat?.map Int.ofNat

def parseSuppr (t : String) : Option Suppr :=
  match t.splitOn ":" with
  | [id, file, line, sym, hash, tanl, ty, lb, le, col, inl, poly, chk, mat, mac] =>
    match fromHex id, fromHex file, parseInt line, fromHex sym, hash.toNat?, ty.toNat?, parseInt lb, parseInt le, col.toNat?, fromHex mac with
    | some id, some file, some line, some sym, some hash, some ty, some lb, some le, some col, some mac =>
      some { errorId := id, fileName := file, lineNumber := line, symbolName := sym, macroName := mac, hash := hash, thisAndNextLine := tanl == "1",
             type := typeOfNat ty, lineBegin := lb, lineEnd := le, column := col, isInline := inl == "1", isPolyspace := poly == "1",
             checked := chk == "1", matched := mat == "1" }
    | _, _, _, _, _, _, _, _, _, _ => none
  | _ => none

def supprStr (s : Suppr) : String :=
  ":".intercalate [toHex s.errorId, toHex s.fileName, toString s.lineNumber, toHex s.symbolName, toString s.hash, boolStr s.thisAndNextLine,
    toString (natOfType s.type), toString s.lineBegin, toString s.lineEnd, toString s.column, boolStr s.isInline, boolStr s.isPolyspace,
    boolStr s.checked, boolStr s.matched, toHex s.macroName]

def listStr (l : List Suppr) : String := if l.isEmpty then "-" else " ".intercalate (l.map supprStr)

def parseVerdicts (s : String) : List Res :=
  if s == "-" then [] else s.toList.map fun c => if c == 'M' then .matched else if c == 'C' then .checked else .none

def bitsAt (s : String) (st : State) (x : Suppr) : Bool :=
  -- positional parameter: the answer for the i-th entry of the list the real code iterated over
  let rec go : List Suppr → List Char → Bool
    | [], _ => false
    | y :: r, c :: cs => if y == x then c == '1' else go r cs
    | _ :: _, [] => false
  go st (if s == "-" then [] else s.toList)

def clearFlags (s : Suppr) : Suppr := { s with checked := false, matched := false }

def addResStr : AddResult → String
  | .ok => "ok" | .exists => "exists" | .noId => "noid" | .invalidId => "invalidid" | .invalidGlob => "invalidglob"

def msgStr (s : Suppr) : String :=
  let m := message s
  ":".intercalate [boolStr m.1, toHex m.2.1, toHex m.2.2.1, toString m.2.2.2.1, toString m.2.2.2.2]

def parseLocs : Nat → List String → Option (List (Str × Int))
  | 0, _ => some []
  | n + 1, f :: l :: r =>
    match fromHex f, parseInt l, parseLocs n r with
    | some f, some l, some t => some ((f, l) :: t)
    | _, _, _ => none
  | _, _ => none

def out (a : String) (st : State) : State × String := (st, a ++ " | " ++ listStr st)

def step (st : State) (line : String) : State × String :=
  match fields line with
  | ["new"] => ([], "- | -")
  | ["add", g, t] =>
    match parseSuppr t with
    | some s => let (st', r) := addSuppression (g == "1") s st; out (addResStr r) st'
    | none => (st, "bad-op")
  | ["upd", t] =>
    match parseSuppr t with
    | some s => let (st', b) := updateState s st; out (boolStr b) st'
    | none => (st, "bad-op")
  | ["sup", g, id, vs] =>
    match fromHex id with
    | some id =>
      if (parseVerdicts vs).length != st.length then (st, "bad-op verdict-length")
      else let (st', b) := isSuppressedWith (g == "1") id st (parseVerdicts vs); out (boolStr b) st'
    | none => (st, "bad-op")
  | ["werr", sg, id, vs1, vs2] =>
    -- a worker's CppCheckLogger::reportErr: verdict strings before the local call and before the (possible) global call
    match fromHex id with
    | some id =>
      if (parseVerdicts vs1).length != st.length then (st, "bad-op verdict-length")
      else
        let r := isSuppressedWith false id st (parseVerdicts vs1)
        let goGlobal := !r.2 || sg == "1"
        if goGlobal && (parseVerdicts vs2).length != st.length then (st, "bad-op verdict-length")
        else
          -- `workerReportErr` with the verdict function given positionally (the same list both times: verdicts read no flag)
          let v : Suppr → Msg → Res := fun s _ => (parseVerdicts vs1).getD ((st.map clearFlags).idxOf (clearFlags s)) .none
          out (boolStr r.2) (workerReportErr (sg == "1") v st ⟨id, 0⟩)
    | none => (st, "bad-op")
  | ["supx", g, id, vs] =>
    match fromHex id with
    | some id =>
      if (parseVerdicts vs).length != st.length then (st, "bad-op verdict-length")
      else let (st', b) := isSuppressedExplicitlyWith (g == "1") id st (parseVerdicts vs); out (boolStr b) st'
    | none => (st, "bad-op")
  | "mark" :: n :: rest =>
    match n.toNat? with
    | some n =>
      match parseLocs n rest with
      | some locs => out "-" (markStream none locs st)
      | none => (st, "bad-op")
    | none => (st, "bad-op")
  | ["recv", g, t] =>
    match parseSuppr t with
    | some s => out "-" (recv (g == "1") st (wire s))     -- the harness sends the worker's entry through the real pipe format
    | none => (st, "bad-op")
  | ["thread"] => out "-" (threadPropagate st)
  | ["wire", sk] => out (listStr (workerReport (sk == "1") st)) st
  | ["ul", pm] => out (listStr (unmatchedLocal (bitsAt pm st) st)) st
  | ["ug"] => out (listStr (unmatchedGlobal st)) st
  | ["ui"] => out (listStr (unmatchedInline st)) st
  | "report" :: inl :: k :: rest =>
    match k.toNat? with
    | some k =>
      if rest.length == k + 1 then
        let pms := rest.take k
        let filt := rest.getD k "-"
        -- the positional answers refer to the copy the real code iterates over (`recopy st`)
        let c := recopy st
        let files := List.range k
        let r := report files (fun i => bitsAt (pms.getD i "-") c) (inl == "1") (bitsAt filt c) st
        out (if r.isEmpty then "0 -" else "1 " ++ " ".intercalate (r.map msgStr)) st
      else (st, "bad-op")
    | none => (st, "bad-op")
  | _ => (st, "bad-op")

partial def loop (h : IO.FS.Stream) (o : IO.FS.Stream) (st : State) : IO Unit := do
  let line ← h.getLine
  if line.isEmpty then return ()
  let (st', s) := step st line
  o.putStrLn s
  loop h o st'

end Driver.C24

def main : IO Unit := do
  let i ← IO.getStdin
  let o ← IO.getStdout
  Driver.C24.loop i o []
  o.flush

import Driver.Common
import Cppcheck.Model.Cache
import Cppcheck.Gen.HashInput
open Cppcheck.Wire Cppcheck.Cache

/-
Line protocol (one op per line; strings are hex, "-" = empty):
  pre <path> <version> <product> <sev5> <cc> <force> <maxcfg> <level> <ud> <prem> <na> {<name> <args>}* <dump>
      X <inconclusive> <unusedFunction> <missingInclude> <getC> <getCPP> <platform> <nu> {<undef>}* <nl> {<lib>}*
      M <n> {<str> <line> <col> <comment>}* H <nh> {<name> <n> {tok}*}*
        -> hex of `hashInput Gen.encoding` over `renderToolinfo Gen.toolinfoItems`   ("unrendered" if an item names an unknown field)
  prx <toolinfo> M … H …   -> hex of `hashInput Gen.encoding` for a given toolinfo string (Preprocessor::calculateHash alone)
  ft <n> {<path>}*         -> hex of files.txt as getFilesTxt prints it
  lk <n> {<afile> <source>}* <src>   -> "S <cacheFile suffixFirst> E <cacheFile exactFirst> G <cacheFile Gen.lookupKind>"
  rz <stored|none> <cur> <n> {<id>}* -> "0 <n>" (reuse, n cached findings) | "1 0" (discard)
  rd <stored|none> <cur> <n> {E<idhex> | F}*  -> as rz, for a document whose <error> and <FileInfo> children interleave
  hist …                   see `histStep`
-/
namespace Driver.C18

def parseToks : Nat → List String → Option (List RawTok × List String)
  | 0, r => some ([], r)
  | n + 1, s :: l :: c :: k :: r =>
    match fromHex s, l.toNat?, c.toNat?, parseToks n r with
    | some s, some l, some c, some (ts, r') => some ({ str := s, line := l, col := c, comment := k == "1" } :: ts, r')
    | _, _, _, _ => none
  | _, _ => none

def parseHdrs : Nat → List String → Option (List Header × List String)
  | 0, r => some ([], r)
  | n + 1, name :: cnt :: r =>
    match fromHex name, cnt.toNat? with
    | some name, some cnt =>
      match parseToks cnt r with
      | some (ts, r') =>
        match parseHdrs n r' with
        | some (hs, r'') => some ({ name := name, toks := ts } :: hs, r'')
        | none => none
      | none => none
    | _, _ => none
  | _, _ => none

/-- `M <n> toks H <nh> hdrs` -/
def parseFiles : List String → Option (List RawTok × List Header × List String)
  | "M" :: n :: r =>
    match n.toNat? with
    | some n =>
      match parseToks n r with
      | some (ts, "H" :: nh :: r') =>
        match nh.toNat? with
        | some nh => match parseHdrs nh r' with
          | some (hs, r'') => some (ts, hs, r'')
          | none => none
        | none => none
      | _ => none
    | none => none
  | _ => none

def parseAddons : Nat → List String → Option (List (List (String × Str)) × List String)
  | 0, r => some ([], r)
  | n + 1, a :: b :: r =>
    match fromHex a, fromHex b, parseAddons n r with
    | some a, some b, some (l, r') => some ([("name", a), ("args", b)] :: l, r')
    | _, _, _ => none
  | _, _ => none

def bit (s : String) (i : Nat) : Bool := s.toList.getD i '0' == '1'

def parsePairs : Nat → List String → Option (List FtLine × List String)
  | 0, r => some ([], r)
  | n + 1, a :: s :: r =>
    match fromHex a, fromHex s, parsePairs n r with
    | some a, some s, some (l, r') => some ({ afile := a, source := s } :: l, r')
    | _, _, _ => none
  | _, _ => none

def renderFt (ft : List FtLine) : Str :=
  ft.flatMap fun l => l.afile ++ ":::".toList ++ l.source ++ ['\n']

def parseIds : Nat → List String → Option (List Str)
  | 0, [] => some []
  | n + 1, a :: r => match fromHex a, parseIds n r with
    | some a, some l => some (a :: l)
    | _, _ => none
  | _, _ => none

/-! ### CLI histories: reuse decision per file and run, with a diagnosis of stale reuse -/

def histWorld : World Str Unit Unit :=
  { hash := id, analyze := fun _ _ => [], summary := fun _ _ => (), wp := fun _ => [], funs := fun _ _ => (), loadRet := fun _ => [],
    enc := Cppcheck.Gen.HashInput.encoding, lk := Cppcheck.Gen.HashInput.lookupKind }

/-- the options of a history are fixed: only the path and the suppression dump vary in toolinfo -/
def histToolinfo (path dump : Str) : Option Str :=
  renderToolinfo Cppcheck.Gen.HashInput.toolinfoItems
    { version := ['v'], product := [],
      sevs := [("warning", false), ("style", false), ("performance", false), ("portability", false), ("information", false)],
      bools := [("checkConfiguration", false), ("force", false), ("certainty:inconclusive", false), ("checks:unusedFunction", false),
                ("checks:missingInclude", false)],
      strs := [("userDefines", []), ("premiumArgs", []), ("standards.getC", []), ("standards.getCPP", []), ("platform.toString", [])],
      ints := [("maxConfigsOption", 0)], enums := [("checkLevel", 2)], addons := [], dump := dump, filePath := path,
      lists := [("userUndefs", []), ("libraries", [])] }

def parseRunFiles : Nat → List String → Option (List FileInput × List String)
  | 0, r => some ([], r)
  | n + 1, "F" :: path :: dump :: r =>
    match fromHex path, fromHex dump, parseFiles r with
    | some path, some dump, some (main, hdrs, r') =>
      match histToolinfo path dump, parseRunFiles n r' with
      | some ti, some (fs, r'') => some ({ path := path, toolinfo := ti, main := main, headers := hdrs } :: fs, r'')
      | _, _ => none
    | _, _, _ => none
  | _, _ => none

def parseRuns : Nat → List String → Option (List (List FileInput))
  | 0, [] => some []
  | n + 1, "R" :: k :: r =>
    match k.toNat? with
    | some k => match parseRunFiles k r with
      | some (fs, r') => (parseRuns n r').map (fs :: ·)
      | none => none
    | none => none
  | _, _ => none

def mod256Tok (t : RawTok) : RawTok := { t with line := t.line % 256, col := t.col % 256 }

def flatToks (v : View) : List RawTok := v.main ++ v.headers.flatMap (·.2)

/-- why a reused entry is stale: P path differs, L locations differ by multiples of 256, B same token stream but another
    split into files / other header names, O anything else; "-" = not stale -/
def staleClass (old cur : FileInput) : String :=
  if old.view = cur.view then "-" else
  let p := if old.path = cur.path then "" else "P"
  let o := { old with path := cur.path }
  if o.view = cur.view then p
  else if o.view.main.map mod256Tok = cur.view.main.map mod256Tok
      ∧ o.view.headers.map (fun h => (h.1, h.2.map mod256Tok)) = cur.view.headers.map (fun h => (h.1, h.2.map mod256Tok)) then p ++ "L"
  else if flatToks o.view = flatToks cur.view then p ++ "B"
  else if (flatToks o.view).map mod256Tok = (flatToks cur.view).map mod256Tok then p ++ "LB"
  else p ++ "O"

def lookupSrc (tbl : List (Str × FileInput)) (slot : Str) : Option FileInput :=
  match tbl with
  | [] => none
  | (k, v) :: r => if k = slot then some v else lookupSrc r slot

def histFiles (ft : List FtLine) : BuildDir Str Unit Unit → List (Str × FileInput) → List FileInput → BuildDir Str Unit Unit × List (Str × FileInput) × List String
  | bd, tbl, [] => (bd, tbl, [])
  | bd, tbl, i :: r =>
    let slot := cacheFile histWorld.lk ft i.path
    let dec : String := match reuse histWorld bd slot i with
      | some _ => "h:" ++ (match lookupSrc tbl slot with | some o => staleClass o i | none => "?")
      | none => (match bd.get slot with | some _ => "m:-" | none => "n:-")
    let bd1 := (runFile histWorld [] showAll ft bd i).1
    let tbl1 := match reuse histWorld bd slot i with
      | some _ => tbl
      | none => (slot, i) :: tbl
    let (bd2, tbl2, out) := histFiles ft bd1 tbl1 r
    (bd2, tbl2, (toHex slot ++ ":" ++ dec) :: out)

def histRuns : BuildDir Str Unit Unit → List (Str × FileInput) → List (List FileInput) → List String
  | _, _, [] => []
  | bd, tbl, fs :: r =>
    let ft := filesTxt (fs.map (·.path))
    let (bd1, tbl1, out) := histFiles ft bd tbl fs
    " ".intercalate out :: histRuns bd1 tbl1 r

def histStep (args : List String) : String :=
  match args with
  | n :: rest =>
    match n.toNat? with
    | some n => match parseRuns n rest with
      | some runs => " / ".intercalate (histRuns [] [] runs)
      | none => "bad-op"
    | none => "bad-op"
  | _ => "bad-op"

/-- the `pre` op -/
def preStep (args : List String) : Option String := do
  match args with
  | path :: ver :: prod :: sev :: cc :: force :: maxcfg :: level :: ud :: prem :: na :: rest =>
    let path ← fromHex path
    let ver ← fromHex ver
    let prod ← fromHex prod
    let maxcfg ← maxcfg.toInt?
    let level ← level.toNat?
    let ud ← fromHex ud
    let prem ← fromHex prem
    let na ← na.toNat?
    let (addons, rest) ← parseAddons na rest
    match rest with
    | dump :: "X" :: inc :: uf :: mi :: stdc :: stdcpp :: plat :: nu :: rest0 =>
      let dump ← fromHex dump
      let stdc ← fromHex stdc
      let stdcpp ← fromHex stdcpp
      let plat ← fromHex plat
      let nu ← nu.toNat?
      let undefs ← (rest0.take nu).mapM fromHex
      match rest0.drop nu with
      | nl :: rest1 =>
        let nl ← nl.toNat?
        let libs ← (rest1.take nl).mapM fromHex
        let (main, hdrs, tail) ← parseFiles (rest1.drop nl)
        if !tail.isEmpty then none else
        let sv : SettingsView :=
          { version := ver, product := prod,
            sevs := [("warning", bit sev 0), ("style", bit sev 1), ("performance", bit sev 2), ("portability", bit sev 3), ("information", bit sev 4)],
            bools := [("checkConfiguration", cc == "1"), ("force", force == "1"), ("certainty:inconclusive", inc == "1"),
                      ("checks:unusedFunction", uf == "1"), ("checks:missingInclude", mi == "1")],
            strs := [("userDefines", ud), ("premiumArgs", prem), ("standards.getC", stdc), ("standards.getCPP", stdcpp), ("platform.toString", plat)],
            ints := [("maxConfigsOption", maxcfg)], enums := [("checkLevel", level)],
            addons := addons, dump := dump, filePath := path, lists := [("userUndefs", undefs), ("libraries", libs)] }
        match renderToolinfo Cppcheck.Gen.HashInput.toolinfoItems sv with
        | some ti => some (toHex (hashInput Cppcheck.Gen.HashInput.encoding { path := path, toolinfo := ti, main := main, headers := hdrs }))
        | none => some "unrendered"
      | _ => none
    | _ => none
  | _ => none

def step (line : String) : String :=
  match fields line with
  | "pre" :: rest => (preStep rest).getD "bad-op"
  | "prx" :: ti :: rest =>
    match fromHex ti, parseFiles rest with
    | some ti, some (main, hdrs, []) =>
      toHex (hashInput Cppcheck.Gen.HashInput.encoding { path := [], toolinfo := ti, main := main, headers := hdrs })
    | _, _ => "bad-op"
  | "ft" :: n :: rest =>
    match n.toNat?, rest.mapM fromHex with
    | some n, some ps => if ps.length = n then toHex (renderFt (filesTxt ps)) else "bad-op"
    | _, _ => "bad-op"
  | "lk" :: n :: rest =>
    match n.toNat? with
    | some n =>
      match parsePairs n rest with
      | some (ft, [src]) =>
        match fromHex src with
        | some src =>
          s!"S {toHex (cacheFile .suffixFirst ft src)} E {toHex (cacheFile .exactFirst ft src)} G {toHex (cacheFile Cppcheck.Gen.HashInput.lookupKind ft src)}"
        | none => "bad-op"
      | _ => "bad-op"
    | none => "bad-op"
  | "rz" :: stored :: cur :: n :: rest =>
    match cur.toNat?, n.toNat? with
    | some cur, some n =>
      match parseIds n rest with
      | some ids =>
        let W : World Nat Unit Unit := { hash := fun _ => cur, analyze := fun _ _ => [], summary := fun _ _ => (), wp := fun _ => [],
                                         funs := fun _ _ => (), loadRet := fun _ => [], enc := Encoding.legacy, lk := .suffixFirst }
        let fs : List Finding := ids.map fun i => { id := i, file := [], line := 0, col := 0, msg := [] }
        let bd : BuildDir Nat Unit Unit := match stored.toNat? with
          | some h => [(['s'], { hash := h, findings := fs, summ := (), funs := () })]
          | none => []
        match reuse W bd ['s'] default with
        | some e => s!"0 {e.findings.length}"
        | none => "1 0"
      | none => "bad-op"
    | _, _ => "bad-op"
  | "rd" :: stored :: cur :: n :: rest =>
    -- a cache document with interleaved children: E<idhex> = <error id=…>, F = <FileInfo>; read by the translated reader
    match cur.toNat?, n.toNat? with
    | some cur, some n =>
      let kids : Option (List (DocChild Unit)) := rest.mapM fun w =>
        match w.toList with
        | ['F'] => some (DocChild.fileInfo ())
        | 'E' :: h => (fromHexAux h).map fun i => DocChild.error { id := i, file := [], line := 0, col := 0, msg := [] }
        | _ => none
      match kids with
      | some kids =>
        if kids.length != n then "bad-op" else
        let W : World Nat Unit Unit := { hash := fun _ => cur, analyze := fun _ _ => [], summary := fun _ _ => (), wp := fun _ => [],
                                         funs := fun _ _ => (), loadRet := fun _ => [], enc := Encoding.legacy, lk := .suffixFirst }
        let bd : BuildDir Nat Unit Unit := match stored.toNat? with
          | some h => [(['s'], { hash := h, findings := readErrors Cppcheck.Gen.HashInput.errorReader kids, summ := (), funs := () })]
          | none => []
        match reuse W bd ['s'] default with
        | some e => s!"0 {e.findings.length}"
        | none => "1 0"
      | none => "bad-op"
    | _, _ => "bad-op"
  | "hist" :: rest => histStep rest
  | _ => "bad-op"

end Driver.C18

def main : IO Unit := Driver.mainLoop Driver.C18.step

import Driver.Common
import Cppcheck.Model.AstUnary
import Cppcheck.Gen.AstLadder
open Cppcheck.Wire Cppcheck.AstLadder

namespace Driver.C07

def classify (s : Str) (flags : String) : Tok :=
  let has (c : Char) : Bool := flags.toList.contains c
  if has 'T' then .kw s else     -- a linked `<` / `>` (template bracket) is outside the model's alphabet
  if has 'N' then
    if has 'V' then .var s else if has 'S' then .ty s else if has 'K' then .kw s else .fn s
  else if has 'L' then .num s
  else if s = ['('] then .lp else if s = [')'] then .rp else if s = ['['] then .lb else if s = [']'] then .rb
  else .op s

def parseToks : List String → Option (List Tok)
  | [] => some []
  | w :: r =>
    match w.splitOn ":" with
    | [h, fl] =>
      match fromHex h, parseToks r with
      | some s, some ts => some (classify s fl :: ts)
      | _, _ => none
    | _ => none

def mask : Ast → Nat
  | .node _ a b => (if a = .nil then 0 else 1) + (if b = .nil then 0 else 2)
  | .nil => 0

def renderAst : Ast → List String
  | .nil => []
  | .node s a b => (String.ofList s ++ "/" ++ toString (mask (.node s a b))) :: (renderAst a ++ renderAst b)

def insertByPos (e : Entry) : List Entry → List Entry
  | [] => [e]
  | x :: r => if e.pos ≤ x.pos then e :: x :: r else x :: insertByPos e r

def roots (stk : List Entry) : String :=
  let sorted := stk.foldl (fun acc e => insertByPos e acc) []
  let rs := sorted.filter (fun e => mask e.ast != 0)
  " ;".intercalate (rs.map fun e => " " ++ " ".intercalate (renderAst e.ast))

def showR (r : R) : String :=
  match r with
  | .ok st => "ok rest=" ++ toString st.inp.length ++ " |" ++ roots st.stk
  | .error .depth => "err depth"
  | .error .stuck => "err stuck"
  | .error (.outside c) => "outside " ++ toString c

def step (line : String) : String :=
  match fields line with
  | "parse" :: lang :: toks =>
    match parseToks toks with
    | some ts => showR (parse Cppcheck.Gen.AstLadder.astLadder (lang == "cpp") ts)
    | none => "bad-op"
  | "astof" :: lang :: toks =>
    match parseToks toks with
    | some ts => showR (astOf Cppcheck.Gen.AstLadder.astLadder (lang == "cpp") ts)
    | none => "bad-op"
  | "prep" :: toks =>
    match parseToks toks with
    | some ts => "ok" ++ String.join ((prep ts).map fun t => " " ++ String.ofList t.str)
    | none => "bad-op"
  | _ => "bad-op"

end Driver.C07

def main : IO Unit := Driver.mainLoop Driver.C07.step

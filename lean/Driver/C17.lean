import Driver.Common
import Cppcheck.Model.RunState
open Cppcheck.Wire Cppcheck.RunState

/-
C17 driver.  One op per line:

  run <e><c><x> <init> <file>*
     e/c/x ∈ {0,1}: --emit-duplicates / clear() at the start of checkInternal / exact file test for inline suppressions
     init   = "." | suppr(";"suppr)*                       (command-line suppressions)
     file   = early("|"event)*                             early ∈ {0,1}
     event  = "S"suppr | "M"macromap | "R"remarks | "X"finding | "P"finding (isSuppressed only: the dummy call of check(file))
              | "K"marks      marks = "." | hexfile@line("+"hexfile@line)*   (markUnmatchedInlineSuppressionsAsChecked)
     suppr  = hexid:hexfile:line:hexsymbol:type:lineBegin:lineEnd:tnl:hexmacro:inline     type ∈ u f b m
     macromap = "." | entry("+"entry)*   entry = hexfile@line@hexname(&hexname)*
     remarks  = "." | hexfile@line@hexstr("+"…)*
     finding  = hexid:hasLoc:hexfile:line:hexsymbols:hextext:internal:wp:hextag

  answer: per file "F=<tags>;R=<tags>;E=<exit>;I=<h1h2h3h4h5>" (forwarded / recorded / exit code / the five
  hypotheses of `Indep` for this file after its predecessors), then "SHOWN=<tags>" (what the outer logger prints,
  key = the rendered text), then "UNM=<hexid@hexfile@line,…>" (`unmatchedInline` of the final state: the inline
  suppressions `getUnmatchedInlineSuppressions` returns after the last file).  A forwarded tag carries "~hexremark" when a remark was attached.
-/
namespace Driver.C17

def pBool (s : String) : Option Bool := if s == "1" then some true else if s == "0" then some false else none

def pInt (s : String) : Option Int := s.toInt?

def pType (s : String) : Option SType :=
  match s with
  | "u" => some .unique | "f" => some .file | "b" => some .block | "m" => some .macro
  | "B" => some .blockBegin | "E" => some .blockEnd | _ => none

def pSuppr (s : String) : Option Suppr :=
  match s.splitOn ":" with
  | [i, f, l, sy, t, lb, le, tn, m, inl] => do
    let i ← fromHex i; let f ← fromHex f; let l ← pInt l; let sy ← fromHex sy; let t ← pType t
    let lb ← pInt lb; let le ← pInt le; let tn ← pBool tn; let m ← fromHex m; let inl ← pBool inl
    pure ⟨i, f, l, sy, t, lb, le, tn, m, inl⟩
  | _ => none

def pList {β : Type} (sep : String) (p : String → Option β) (s : String) : Option (List β) :=
  if s == "." then some [] else (s.splitOn sep).mapM p

def pMacroEntry (s : String) : Option ((Str × Int) × List Str) :=
  match s.splitOn "@" with
  | [f, l, ns] => do
    let f ← fromHex f; let l ← pInt l; let ns ← (ns.splitOn "&").mapM fromHex
    pure ((f, l), ns)
  | _ => none

def pRemark (s : String) : Option Remark :=
  match s.splitOn "@" with
  | [f, l, t] => do
    let f ← fromHex f; let l ← pInt l; let t ← fromHex t
    pure ⟨f, l, t⟩
  | _ => none

def pFinding (s : String) : Option Finding :=
  match s.splitOn ":" with
  | [i, hl, f, l, sy, tx, inr, wp, tg] => do
    let i ← fromHex i; let hl ← pBool hl; let f ← fromHex f; let l ← pInt l; let sy ← fromHex sy
    let tx ← fromHex tx; let inr ← pBool inr; let wp ← pBool wp; let tg ← fromHex tg
    pure ⟨i, hl, f, l, sy, tx, inr, wp, tg, []⟩
  | _ => none

def pMark (s : String) : Option (Str × Int) :=
  match s.splitOn "@" with
  | [f, l] => do
    let f ← fromHex f; let l ← pInt l
    pure (f, l)
  | _ => none

def pEvent (s : String) : Option (Ev Suppr) :=
  let body := (s.drop 1).toString
  if s.startsWith "S" then (pSuppr body).map Ev.suppr
  else if s.startsWith "M" then (pList "+" pMacroEntry body).map Ev.macros
  else if s.startsWith "R" then (pList "+" pRemark body).map Ev.remarks
  else if s.startsWith "X" then (pFinding body).map Ev.report
  else if s.startsWith "P" then (pFinding body).map Ev.probe
  else if s.startsWith "K" then (pList "+" pMark body).map Ev.mark
  else none

def pFile (s : String) : Option (Trace Suppr) :=
  match s.splitOn "|" with
  | e :: evs => do
    let e ← pBool e
    let evs ← evs.mapM pEvent
    pure ⟨evs, e⟩
  | [] => none

def tagStr (x : Finding) : String :=
  toHex x.tag ++ (if x.remark.isEmpty then "" else "~" ++ toHex x.remark)

def tags (l : List Finding) : String := ",".intercalate (l.map tagStr)

def indepBits (cfg : Cfg Suppr) (c a : State Suppr) (tr : Trace Suppr) : String :=
  boolStr (foreignOK cfg c.supprs a.supprs a.locMacros tr.evs) ++
  boolStr (sameOK cfg c.supprs tr.evs) ++
  boolStr (staleMacrosOK c.locMacros a.locMacros tr.evs) ++
  boolStr (staleRemarksOK c.remarks a.remarks tr.evs) ++
  boolStr (leakOK cfg c a tr.evs)

/-- the five hypotheses for the k-th file, on the state `Model.stateAfter` gives for its predecessors -/
def bitsAt (cfg : Cfg Suppr) (init : State Suppr) (trs : List (Trace Suppr)) (k : Nat) (tr : Trace Suppr) : String :=
  indepBits cfg (stateAfter cfg id init (trs.take k)) init tr

def step (line : String) : String :=
  match fields line with
  | "run" :: fl :: ini :: files =>
    match fl.toList.map (fun c => c == '1'), pList ";" pSuppr ini, files.mapM pFile with
    | [e, c, x], some ini, some trs =>
      let cfg := realCfg x c e []
      let init := initState ini
      -- the run is `Model.runSingle` itself (analysis function = identity on the traces)
      let rs := runSingle cfg id init trs
      let bits := (List.range trs.length).zip trs |>.map (fun (k, tr) => bitsAt cfg init trs k tr)
      let per := (rs.zip bits).map (fun (r, b) => s!"F={tags r.forwarded};R={tags r.recorded};E={r.exit};I={b}")
      let sh := shown e (fun y => y.text) (stream rs [])
      let unm := unmatchedInline (stateAfter cfg id init trs)
      " ".intercalate per ++ " SHOWN=" ++ tags sh ++ " UNM=" ++
        ",".intercalate (unm.map (fun u => toHex u.errorId ++ "@" ++ toHex u.fileName ++ "@" ++ toString u.lineNumber))
    | _, _, _ => "bad-op"
  | _ => "bad-op"

end Driver.C17

def main : IO Unit := Driver.mainLoop Driver.C17.step

import Driver.Common
import Cppcheck.Model.Determinism
open Cppcheck.Wire Cppcheck.Determinism Cppcheck.FileLister

/-
C29 driver.  Ops:
  canon <item>*        item = "L" (a text chunk) | "R"<hex digits of the id>
                       answer: the canonical index of every R item, in order, separated by ","
  sort <hexpath>*      answer: the paths in the order of `FileLister::addFiles` (sortFiles), hex, separated by " "
  files <late> <arg>*  arg = hexpath(","hexpath)* : the sorted listing of one command-line argument as given
                       late = hex extension list ("-" none) of markup files processed last
                       answer: `runFiles` order after duplicate removal and markup-last, hex paths
-/
namespace Driver.C29

def hexNat (s : String) : Option Nat :=
  s.toList.foldl (fun acc c => match acc, hexVal c with
    | some a, some v => some (16 * a + v)
    | _, _ => none) (some 0)

def pItem (s : String) : Option Item :=
  if s == "L" then some (.lit [])
  else if s.startsWith "R" then (hexNat (s.drop 1).toString).map Item.ref
  else none

def refsOf : List Item → List Nat
  | [] => []
  | .lit _ :: r => refsOf r
  | .ref i :: r => i :: refsOf r

def step (line : String) : String :=
  match fields line with
  | "canon" :: items =>
    match items.mapM pItem with
    | some d => ",".intercalate ((refsOf (canon d)).map toString)
    | none => "bad-op"
  | "sort" :: paths =>
    match paths.mapM fromHex with
    | some ps => " ".intercalate ((sortFiles (ps.map (fun p => (p, Lang.none)))).map (fun x => toHex x.1))
    | none => "bad-op"
  | "files" :: late :: args =>
    let parsed := args.mapM (fun a => (a.splitOn ",").mapM fromHex)
    match parsed, fromHex late with
    | some ls, some lateExt =>
      -- every argument arrives as an enumeration of its files; the model sorts it, concatenates, erases duplicates
      let listed := ls.flatMap (fun l => sortFiles (l.map (fun p => (p, Lang.none))))
      let isLate := fun (p : Str) => !lateExt.isEmpty && getFilenameExtension p == lateExt
      " ".intercalate ((markupLast isLate (dedupPaths listed)).map (fun x => toHex x.1))
    | _, _ => "bad-op"
  | _ => "bad-op"

end Driver.C29

def main : IO Unit := Driver.mainLoop Driver.C29.step

import Driver.Common
import Cppcheck.Model.Determinism
open Cppcheck.Wire Cppcheck.Determinism Cppcheck.FileLister

/-
C29 driver.  Ops:
  canon <item>*        item = "L" (a text chunk) | "R"<hex digits of the id>
                       answer: the canonical index of every R item, in order, separated by ","
  sort <hexpath>*      answer: the paths in the order of `FileLister::addFiles` (sortFiles), hex, separated by " "
  trees <extra> <late> <arg>*
                       arg = "F"hexpath (a file) | "D"hexpath":"hexrel,… (a directory and every file below it, in the
                       enumeration order of the file system) | "N"hexpath (does not exist)
                       extra / late = hex extension lists ("-" none): markup extensions of the library / those processed last
                       answer: `Determinism.runFiles` evaluated on the trees (traversal, acceptance, sort per argument,
                       duplicate removal, markup last), hex paths
-/
namespace Driver.C29

def hexNat (s : String) : Option Nat :=
  s.toList.foldl (fun acc c => match acc, hexVal c with
    | some a, some v => some (16 * a + v)
    | _, _ => none) (some 0)

def pItem (s : String) : Option Item :=
  if s == "L" then some (.lit [])
  else if s.startsWith "R" then (hexNat (s.drop 1).toString).map Item.ref
  else none

def refsOf : List Item → List Nat
  | [] => []
  | .lit _ :: r => refsOf r
  | .ref i :: r => i :: refsOf r

def splitSlash : Str → Str → List Str
  | acc, [] => [acc.reverse]
  | acc, c :: r => if c == '/' then acc.reverse :: splitSlash [] r else splitSlash (c :: acc) r

def isDirNamed (c : Str) : Tree → Bool
  | .dir n _ => n == c
  | .file _ => false

/-- add the file with the path components `comps` below the directory node `t` (entries keep their arrival order) -/
partial def insertPath (t : Tree) (comps : List Str) : Tree :=
  match t, comps with
  | .dir n ch, [f] => .dir n (ch ++ [.file f])
  | .dir n ch, c :: rest =>
    if ch.any (isDirNamed c) then .dir n (ch.map (fun x => if isDirNamed c x then insertPath x rest else x))
    else .dir n (ch ++ [insertPath (.dir c []) rest])
  | t, _ => t

/-- "F"hexpath = a regular file; "D"hexpath":"hexrel(","hexrel)* = a directory with the files below it as enumerated -/
def pArg (s : String) : Option (Str × Option Tree) :=
  if s.startsWith "F" then (fromHex (s.drop 1).toString).map (fun p => (p, some (.file p)))
  else if s.startsWith "D" then
    match (s.drop 1).toString.splitOn ":" with
    | [p, rels] => do
      let p ← fromHex p
      let rels ← if rels == "" then some [] else (rels.splitOn ",").mapM fromHex
      pure (p, some (rels.foldl (fun t r => insertPath t (splitSlash [] r)) (.dir p [])))
    | _ => none
  else if s.startsWith "N" then (fromHex (s.drop 1).toString).map (fun p => (p, none))
  else none

def pExts (s : String) : Option (List Str) :=
  if s == "-" then some [] else (s.splitOn ",").mapM fromHex

def step (line : String) : String :=
  match fields line with
  | "canon" :: items =>
    match items.mapM pItem with
    | some d => ",".intercalate ((refsOf (canon d)).map toString)
    | none => "bad-op"
  | "sort" :: paths =>
    match paths.mapM fromHex with
    | some ps => " ".intercalate ((sortFiles (ps.map (fun p => (p, Lang.none)))).map (fun x => toHex x.1))
    | none => "bad-op"
  | "trees" :: extra :: late :: args =>
    -- `runFiles` itself on the directory trees: traversal, acceptance by extension (library markup extensions = extra),
    -- sort per argument, duplicate removal, markup processed after code last
    match pExts extra, pExts late, args.mapM pArg with
    | some extra, some lateExts, some as =>
      let isLate := fun (p : Str) => lateExts.contains (getFilenameExtension p)
      " ".intercalate ((runFiles (fun _ _ => false) (acceptFile extra) isLate as).map (fun x => toHex x.1))
    | _, _, _ => "bad-op"
  | _ => "bad-op"

end Driver.C29

def main : IO Unit := Driver.mainLoop Driver.C29.step

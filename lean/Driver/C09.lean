import Driver.Common
import Cppcheck.Model.ValueTypeConv
import Cppcheck.Model.ConvSpec
import Cppcheck.Gen.PlatformsC09
open Cppcheck.Wire Cppcheck.ValueTypeConv Cppcheck.ConvSpec

/- C09 driver.  One op per line:
     bin  <platform> <c|cpp> <t1> <t2>   →  var=<vt a>,<vt b> then for every well-typed binary operator and `tern`
                                             <name>=<model base>/<model fixA>/<model fixAB>|<language spec through declVT>
     un   <platform> <c|cpp> <t>         →  the unary operators and the casts to every type, same format
     lit  <platform> <dec|oct|hex> <u:0|1> <#l> <value>  →  lit=<model>|<language or none> K:k6=..
     expr <platform> <c|cpp> <prefix-encoded tree>  →  root=<base>/<fixA>/<fixAB>|<language> K:ok=..,cls=<class of the first
                                             node that is not fine>
     plat <platform>                     →  the generated platform record (sizes, char sign, shape) -/
namespace Driver.C09

/-- a platform of the generated table by name, or explicit sizes `x:<charBit>:<short>:<int>:<long>:<llong>:<charUnsigned>`
    (used by the thorough tier to ask for the spec of a clang target) -/
def findPlat (n : String) : Option Plat :=
  match n.splitOn ":" with
  | ["x", cb, sh, i, l, ll, cu] =>
    match cb.toNat?, sh.toNat?, i.toNat?, l.toNat?, ll.toNat? with
    | some cb, some sh, some i, some l, some ll => some ⟨n, cb, sh, i, l, ll, cu == "1"⟩
    | _, _, _, _, _ => none
  | _ => Cppcheck.Gen.PlatformsC09.platforms.find? (fun p => p.name == n)

/-- `<base>/<fixA>/<fixAB>|<spec>` -/
def triple (f : Variant → Option VT) (s : CT) : String :=
  "/".intercalate (Variant.all.map (fun v => optStr (f v))) ++ "|" ++ (asVT s).str

def binLine (P : Plat) (cpp : Bool) (t1 t2 : CT) : String :=
  let s := P.shape
  let v1 := declVT t1
  let v2 := declVT t2
  let ops := BinOp.all.filter (fun op => wellTypedBin op t1 t2)
  let parts := ops.map (fun op => op.name ++ "=" ++ triple (fun v => convBin v s cpp op v1 v2) (specBin s cpp op t1 t2))
  let tern := "tern=" ++ triple (fun v => convTernary v s cpp v1 v2) (specTernary s cpp t1 t2)
  let flags := s!"K:k1={boolStr (sameSizeDifferentRankMixedSign s t1 t2)},k2a={boolStr (promotesToUnsigned s t1)},k2b={boolStr (promotesToUnsigned s t2)},svt={boolStr (sameVType t1 t2)},cons={boolStr s.consistent}"
  " ".intercalate (("var=" ++ v1.str ++ "," ++ v2.str) :: parts ++ [tern, flags])

def unLine (P : Plat) (cpp : Bool) (t : CT) : String :=
  let s := P.shape
  let v := declVT t
  let ops := UnOp.all.filter (fun op => wellTypedUn op t)
  let parts := ops.map (fun op => op.name ++ "=" ++ triple (fun vr => convUn vr s op v) (specUn s cpp op t))
  let casts := CT.all.map (fun t2 => "cast_" ++ t2.name ++ "=" ++ triple (fun _ => some (convCast t2)) t2)
  let flags := s!"K:k2={boolStr (promotesToUnsigned s t)},below={boolStr (belowInt t)},cons={boolStr s.consistent}"
  " ".intercalate (("var=" ++ v.str) :: parts ++ casts ++ [flags])

def base? : String → Option Base
  | "dec" => some .dec | "oct" => some .oct | "hex" => some .hex | _ => none

def UnOp.ofName (n : String) : Option UnOp := UnOp.all.find? (fun o => o.name == n)
def BinOp.ofName (n : String) : Option BinOp := BinOp.all.find? (fun o => o.name == n)

/-- prefix encoding of an expression tree: `v:<ct>` | `l:<base>:<u>:<#l>:<value>` | `u:<op> E` | `b:<op> E E` | `t E E E` |
    `c:<ct> E`; returns the tree and the unread tokens -/
def parseExpr : Nat → List String → Option (Expr × List String)
  | 0, _ => none
  | _, [] => none
  | fuel + 1, tok :: rest =>
    match tok.splitOn ":" with
    | ["v", t] => (CT.ofName t).map (fun t => (Expr.var t, rest))
    | ["l", b, u, l, v] =>
      match base? b, l.toNat?, v.toNat? with
      | some b, some l, some v => some (Expr.lit b (u == "1") l v, rest)
      | _, _, _ => none
    | ["u", o] =>
      match UnOp.ofName o, parseExpr fuel rest with
      | some o, some (e, r) => some (Expr.un o e, r)
      | _, _ => none
    | ["b", o] =>
      match BinOp.ofName o, parseExpr fuel rest with
      | some o, some (a, r) =>
        match parseExpr fuel r with
        | some (b, r2) => some (Expr.bin o a b, r2)
        | none => none
      | _, _ => none
    | ["t"] =>
      match parseExpr fuel rest with
      | some (c, r) =>
        match parseExpr fuel r with
        | some (a, r2) =>
          match parseExpr fuel r2 with
          | some (b, r3) => some (Expr.tern c a b, r3)
          | none => none
        | none => none
      | none => none
    | ["c", t] =>
      match CT.ofName t, parseExpr fuel rest with
      | some t, some (e, r) => some (Expr.cast t e, r)
      | _, _ => none
    | _ => none

def lang? : String → Option Bool
  | "c" => some false
  | "cpp" => some true
  | _ => none

def step (line : String) : String :=
  match fields line with
  | ["bin", p, l, a, b] =>
    match findPlat p, lang? l, CT.ofName a, CT.ofName b with
    | some P, some cpp, some t1, some t2 => binLine P cpp t1 t2
    | _, _, _, _ => "bad-op"
  | ["un", p, l, a] =>
    match findPlat p, lang? l, CT.ofName a with
    | some P, some cpp, some t => unLine P cpp t
    | _, _, _ => "bad-op"
  | ["lit", p, b, u, l, v] =>
    -- integer literal: base dec|oct|hex, `u` suffix 0|1, number of `l`s, value
    match findPlat p, (match b with | "dec" => some Base.dec | "oct" => some Base.oct | "hex" => some Base.hex | _ => none),
          l.toNat?, v.toNat? with
    | some P, some base, some longs, some value =>
      let us := u == "1"
      let imax := maxValue (P.charBit * P.sizeofInt)
      let lmax := maxValue (P.charBit * P.sizeofLong)
      let llmax := maxValue (P.charBit * P.sizeofLongLong)
      let c := litType P (P.name == "unspecified") (base != .hex) us longs value
      let sp := match litSpec imax lmax llmax base us longs value with
        | some t => (asVT t).str
        | none => "none"
      s!"lit={c.str}|{sp} K:k6={boolStr (octalAsDecimal imax lmax base us longs value)}"
    | _, _, _, _ => "bad-op"
  | "expr" :: p :: l :: toks =>
    match findPlat p, lang? l, parseExpr (toks.length + 1) toks with
    | some P, some cpp, some (e, []) =>
      let root := "/".intercalate (Variant.all.map (fun v => optStr (typeOf v P cpp e)))
      s!"root={root}|{(asVT (specOf P cpp e)).str} K:ok={boolStr (ok P cpp e)},wt={boolStr (wellTypedTree P cpp e)},cls={(firstClass P cpp e).str}"
    | _, _, _ => "bad-op"
  | ["plat", p] =>
    match findPlat p with
    | some P =>
      let s := P.shape
      s!"charBit={P.charBit} short={P.sizeofShort} int={P.sizeofInt} long={P.sizeofLong} llong={P.sizeofLongLong} charUnsigned={boolStr P.charUnsigned} sane={boolStr (sane P)} shape={boolStr s.charLtInt}{boolStr s.shortLtInt}{boolStr s.intLtLong}{boolStr s.intLtLLong}{boolStr s.longLtLLong}{boolStr s.charUnsigned}"
    | none => "unknown-platform"
  | _ => "bad-op"

end Driver.C09

def main : IO Unit := Driver.mainLoop Driver.C09.step

import Driver.Common
import Cppcheck.Model.Configs
open Cppcheck.Wire Cppcheck.Configs

/-
Line protocol (one op per line):
  gc <fe><fn> <ud> <undefs> <defined> <dir>*      getConfigs on a directive list
        fe/fn  = 0|1  (Flags.fixElse / Flags.fixNotDef; 10 = Flags.code, the code since 4aed040; 00 = the fold before it)
        ud     = hex of Settings::userDefines
        undefs, defined = comma separated hex names, "-" = none
        dir    = d<hex> (#ifdef) | n<hex> (#ifndef) | D<hex> (#if defined(..)) | N<hex> (#if !defined(..))
               | e (#else) | x (#endif) | r<num> (region) | m<hex> (#define)
     -> "C <cfg>,<cfg>,... | L <r.r.r>/<r.r>/..."    configurations in set order; per configuration the
        regions that are live in it ("-" = none); "L ?" when the list is not a well nested tree
  reach <ud> <undefs> <dir>*                      regions some configuration consistent with -D / -U contains -> "R r.r.r"
  flags                                           the variant `Flags.code` of the theorems -> "F <fe><fn>"
  safe <fe><fn> <dir>*                            the decidable class of Model/Configs.lean   -> "S 0|1|?"
  sel <force> <maxopt> <maxproj> <ud> <cfg>,<cfg>,...   selection loop of checkInternal
     -> "M <maxConfigs> | A <currentConfig>,..."
-/
namespace Driver.C12

def parseList (s : String) : Option (List (List Char)) :=
  if s == "-" then some [] else (s.splitOn ",").mapM fromHex

def parseDir (w : String) : Option Dir :=
  match w.toList with
  | ['e'] => some .els
  | ['x'] => some .endif
  | 'r' :: n => (String.ofList n).toNat?.map Dir.region
  | 'd' :: h => (fromHexAux h).map (Dir.opn .ifdef)
  | 'n' :: h => (fromHexAux h).map (Dir.opn .ifndef)
  | 'D' :: h => (fromHexAux h).map (Dir.opn .ifDefined)
  | 'N' :: h => (fromHexAux h).map (Dir.opn .ifNotDefined)
  | 'm' :: h => (fromHexAux h).map Dir.define
  | _ => none

def natsStr (l : List Nat) : String := if l.isEmpty then "-" else ".".intercalate (l.map toString)

def insertNat (a : Nat) : List Nat → List Nat
  | [] => [a]
  | b :: bs => if a = b then b :: bs else if a < b then a :: b :: bs else b :: insertNat a bs

def liveStr (inp : Inp) (cfgs : List (List Char)) (ds : List Dir) : String :=
  match parseTree ds with
  | none => "?"
  | some t => "/".intercalate (cfgs.map fun c => natsStr ((t.emit (effDefines inp c)).foldr insertNat []))

def cfgsStr (l : List (List Char)) : String := ",".intercalate (l.map toHex)

def step (line : String) : String :=
  match fields line with
  | "gc" :: fl :: ud :: undefs :: defd :: dirs =>
    match fromHex ud, parseList undefs, parseList defd, dirs.mapM parseDir with
    | some ud, some undefs, some defd, some ds =>
      let flags : Flags := { fixElse := fl.toList.head? == some '1', fixNotDef := fl.toList.getLast? == some '1' }
      let inp : Inp := { defined0 := defd, userDefines := ud, undefs := undefs }
      let cs := getConfigsWith flags inp ds
      s!"C {cfgsStr cs} | L {liveStr inp cs ds}"
    | _, _, _, _ => "bad-op"
  | "reach" :: ud :: undefs :: dirs =>
    match fromHex ud, parseList undefs, dirs.mapM parseDir with
    | some ud, some undefs, some ds =>
      match parseTree ds with
      | some t =>
        let pos := ((pieces ud).map nameOf).filter fun x => !undefs.contains x
        s!"R {natsStr ((t.reach pos undefs).foldr insertNat [])}"
      | none => "R ?"
    | _, _, _ => "bad-op"
  | ["flags"] =>
    -- the variant the "code" theorems (`getConfigs = getConfigsWith Flags.code`) are about
    s!"F {boolStr Flags.code.fixElse}{boolStr Flags.code.fixNotDef}"
  | "safe" :: fl :: dirs =>
    match dirs.mapM parseDir with
    | some ds =>
      let flags : Flags := { fixElse := fl.toList.head? == some '1', fixNotDef := fl.toList.getLast? == some '1' }
      match parseTree ds with
      | some t => s!"S {boolStr (safe flags t)}"
      | none => "S ?"
    | none => "bad-op"
  | ["sel", force, mo, mp, ud, cfgs] =>
    match mo.toNat?, mp.toNat?, fromHex ud, (cfgs.splitOn ",").mapM fromHex with
    | some mo, some mp, some ud, some cs =>
      let o : CliOpts := { force := force == "1", maxConfigsOption := mo, maxConfigsProject := mp, userDefines := ud }
      s!"M {o.maxConfigs} | A {cfgsStr (analysed o cs)}"
    | _, _, _, _ => "bad-op"
  | _ => "bad-op"

end Driver.C12

def main : IO Unit := Driver.mainLoop Driver.C12.step

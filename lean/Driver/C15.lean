import Driver.Common
import Cppcheck.Model.Exec
import Cppcheck.Gen.C15Keys
open Cppcheck.Wire Cppcheck.Serialize Cppcheck.Exec

/-
Line protocol (one op per line; see harness/c15.cpp for the implementation side):
  MSG   = id sev cwe hash remark file0 inc short verbose symbols n {line col file orig info}*n   (strings hex)
  SUPPR = errorId fileName line symbol polyspace column checked matched extraComment inline type lineBegin lineEnd macroName hash thisAndNext
  ser MSG | des <hex> | fix <hex> | pl <hex> | senc SUPPR | pw <type> <hex> | pwmsg MSG | wsup <n> SUPPR* |
  hr <flags> <ids> <hex> | htl <flags> <ids> <n> MSG*      (flags: 1 = --emit-duplicates, 2 = templateLocation {line}:{info})
  sched <kind t|p> <jobs> <seed> <ids> <nfiles> {<nmsg> MSG*}*      run the executor model under a pseudo-random schedule
  lg <tmpl 0|1|2> <jobs> <seed> <nglob> {<idhex> <filehex> <line>}* <nfiles> {<nraw> {MSG <locSup> <noFail>}*}*
        the whole pipeline (per-file logger, gate, sink) of the three executor models on given logger inputs:
        -> "L single=<keys;result> thread=<…> process=<…>"   (template {id} | {id}|{file} | {id}|{file}|{line};
        the listed (id, file, line) views are the ones a non-local suppression matches)
`Path::simplifyPath` is a parameter of the model: the driver runs it with the identity and marks every string the
model passes through it with a leading `~`; the check applies the real function (harness op `simp`) to those.
Text after " # " is model-only information (not compared).
-/
namespace Driver.C15

structure P (α : Type) where
  run : List String → Option (α × List String)

def tok : P String := ⟨fun l => match l with | [] => none | x :: r => some (x, r)⟩
instance : Monad P where
  pure a := ⟨fun l => some (a, l)⟩
  bind p f := ⟨fun l => match p.run l with | none => none | some (a, r) => (f a).run r⟩
def lift {α} (o : Option α) : P α := ⟨fun l => o.map (·, l)⟩
def pstr : P Str := do let t ← tok; lift (fromHex t)
def pnat : P Nat := do let t ← tok; lift t.toNat?
def pint : P Int := do let t ← tok; lift t.toInt?
def pbool : P Bool := do let n ← pnat; pure (n != 0)
def prep {α} (p : P α) : Nat → P (List α)
  | 0 => pure []
  | n + 1 => do let a ← p; let r ← prep p n; pure (a :: r)

def sevOfNat : Nat → Severity
  | 1 => .error | 2 => .warning | 3 => .style | 4 => .performance | 5 => .portability
  | 6 => .information | 7 => .debug | 8 => .internal | _ => .none
def sevToNat : Severity → Nat
  | .none => 0 | .error => 1 | .warning => 2 | .style => 3 | .performance => 4 | .portability => 5
  | .information => 6 | .debug => 7 | .internal => 8

def ploc : P Loc := do
  let line ← pint; let col ← pnat; let file ← pstr; let orig ← pstr; let info ← pstr
  pure { file := file, origFile := orig, line := line, col := col, info := info }

def pmsg : P Msg := do
  let id ← pstr; let sev ← pnat; let cwe ← pnat; let hash ← pnat; let remark ← pstr; let file0 ← pstr
  let inc ← pbool; let short ← pstr; let verbose ← pstr; let symbols ← pstr; let n ← pnat
  let st ← prep ploc n
  pure { id := id, severity := sevOfNat sev, cwe := cwe, hash := hash, remark := remark, file0 := file0,
         inconclusive := inc, short := short, verbose := verbose, symbols := symbols, stack := st }

def psuppr : P Suppr := do
  let errorId ← pstr; let fileName ← pstr; let line ← pint; let symbol ← pstr; let poly ← pbool; let column ← pint
  let checked ← pbool; let matched ← pbool; let extra ← pstr; let inl ← pbool; let type ← pnat
  let lb ← pint; let le ← pint; let mac ← pstr; let hash ← pnat; let tanl ← pbool
  pure { errorId := errorId, fileName := fileName, lineNumber := line, symbolName := symbol, isPolyspace := poly, column := column,
         checked := checked, matched := matched, extraComment := extra, isInline := inl, type := type, lineBegin := lb, lineEnd := le,
         macroName := mac, hash := hash, thisAndNextLine := tanl }

def b01 (b : Bool) : String := if b then "1" else "0"

/-- `mark` = prefix for strings that went through the `simp` parameter -/
def showMsg (mark : String) (m : Msg) : String :=
  let head := s!"{toHex m.id} {sevToNat m.severity} {m.cwe} {m.hash} {toHex m.remark} {toHex m.file0} {b01 m.inconclusive} {toHex m.short} {toHex m.verbose} {toHex m.symbols} {m.stack.length}"
  m.stack.foldl (fun acc l => acc ++ s!" {l.line} {l.col} {mark}{toHex l.file} {toHex l.origFile} {toHex l.info}") head

def showSuppr (mark : String) (s : Suppr) : String :=
  s!"{toHex s.errorId} {if s.fileName.isEmpty then "" else mark}{toHex s.fileName} {s.lineNumber} {toHex s.symbolName} {b01 s.isPolyspace} {s.column} {b01 s.checked} {b01 s.matched} {toHex s.extraComment} {b01 s.isInline} {s.type} {s.lineBegin} {s.lineEnd} {toHex s.macroName} {s.hash} {b01 s.thisAndNextLine}"

def showDes (r : Except DErr Msg) : String :=
  match r with
  | .ok m => "ok " ++ showMsg "~" m
  | .error e => e.code

/-- global suppressions of the in-process ties: `<hexid>` = --suppress=<id>, `<hexid>@<line>` = --suppress=<id>:*:<line> -/
def idsOf (s : String) : Option (List (Str × Option Int)) :=
  if s == "-" then some []
  else (s.splitOn ",").mapM fun w =>
    match w.splitOn "@" with
    | [h] => (fromHex h).map (·, none)
    | [h, l] => match fromHex h, l.toInt? with
      | some i, some n => some (i, some n)
      | _, _ => none
    | _ => none

/-- flags: bit 0 = --emit-duplicates, bit 1 = templateLocation `{line}:{info}` (else empty); templateFormat is `{id}`.
    The keys are the `toString` calls of the source (`Gen.C15Keys`) on the template model `renderIdLoc`. -/
def cfgOf (flags : Nat) (ids : List (Str × Option Int)) : Cfg :=
  let sup : SView → Bool := fun v => ids.any fun p => p.1 == v.errorId && (match p.2 with | none => true | some l => l == v.line)
  let base : Cfg :=
    { key := fun m => m.id, keyGate := fun m => m.id, key2 := fun m => m.id, supG := sup, supGX := sup,
      critical := fun _ => false, emitDuplicates := flags % 2 == 1, simp := id }
  let r : RenderCfg :=
    { render := renderIdLoc, verbose := false, templateFormat := "{id}".toList,
      templateLocation := if flags / 2 % 2 == 1 then "{line}:{info}".toList else [] }
  base.withKeys r Gen.loggerKeyArgs Gen.gateKeyArgs Gen.sinkKeyArgs

/-- events of handleRead called until it returns false -/
def hrLoop (cfg : Cfg) : Nat → Parent → Str → List String → String
  | 0, _, _, evs => " ; ".intercalate (evs.reverse ++ ["status=loop"])
  | fuel + 1, p, pipe, evs =>
    let ev : List String :=
      match readFrame pipe with
      | .msg t payload _ =>
        if t = '2' then
          match deserialize cfg.simp payload with
          | .ok m => if (gate cfg p.el m).1 then ["R " ++ showMsg "~" m] else []
          | .error _ => []
        else if t = '1' then
          match payload with
          | c :: r => [s!"O {c.toNat} {toHex r}"]
          | [] => []
        else if t = '6' then ["M " ++ toHex payload]
        else []
      | _ => []
    match parentRead cfg p pipe with
    | .cont p' rest => hrLoop cfg fuel p' rest (ev ++ evs)
    | .closed p' =>
      let tail := p'.recv.foldl (fun acc s => acc ++ " ; S " ++ showSuppr "~" s) s!"end result={p'.result}"
      " ; ".intercalate ((ev ++ evs).reverse ++ [tail, "status=ok"])
    | .fatal => " ; ".intercalate ((ev ++ evs).reverse ++ ["status=fatal"])
    | .abort => " ; ".intercalate ((ev ++ evs).reverse ++ ["status=abort"])

def htlGo (cfg : Cfg) : List Str → List Msg → String
  | _, [] => ""
  | el, m :: r => let (ok, el') := gate cfg el m; b01 ok ++ htlGo cfg el' r

/-! pseudo-random schedules for the executor models (model-only self check: every enabled-label walk ends in a
terminal state with the outcome of the single executor) -/
def lcg (x : Nat) : Nat := (x * 6364136223846793005 + 1442695040888963407) % 18446744073709551616

def tEnabled (cfg : Cfg) (raws : Nat → List Raw) (s : TState Nat) : List TLabel :=
  (List.range s.workers.length).flatMap fun i =>
    [TLabel.next i, TLabel.gate i, TLabel.print i].filter fun l => (tstep cfg raws s l).isSome

def tWalk (cfg : Cfg) (raws : Nat → List Raw) : Nat → Nat → TState Nat → Nat → Option (TState Nat × Nat)
  | 0, _, _, _ => none
  | fuel + 1, seed, s, n =>
    if s.terminal then some (s, n)
    else
      let en := tEnabled cfg raws s
      match en[(seed / 65536) % en.length]? with
      | none => none
      | some l => match tstep cfg raws s l with
        | none => none
        | some s' => tWalk cfg raws fuel (lcg seed) s' (n + 1)

/-- every worker of a walk also sends two suppression lines (an inline one and a checked global one), so that the
    REPORT_SUPPR frames are interleaved with the findings of the other workers -/
def walkSups (f : Nat) : List (Bool × Suppr) :=
  [(true, { errorId := "nullPointer".toList, fileName := "dir/f.c".toList, lineNumber := f + 1, symbolName := "sym".toList,
            checked := true, matched := f % 2 == 0, isInline := true, extraComment := "why; not".toList, type := 2 }),
   (false, { errorId := "uninitvar".toList, checked := true, column := 3 })]

def pEnabled (cfg : Cfg) (jobs : Nat) (raws : Nat → List Raw) (s : PState Nat) : List PLabel :=
  ([PLabel.fork] ++ (List.range s.children.length).flatMap fun i => [PLabel.send i, PLabel.exit i, PLabel.read i, PLabel.reap i]).filter
    fun l => (pstep cfg jobs raws walkSups s l).isSome

def pWalk (cfg : Cfg) (jobs : Nat) (raws : Nat → List Raw) : Nat → Nat → PState Nat → Nat → Option (PState Nat × Nat)
  | 0, _, _, _ => none
  | fuel + 1, seed, s, n =>
    if s.terminal then some (s, n)
    else
      let en := pEnabled cfg jobs raws s
      match en[(seed / 65536) % en.length]? with
      | none => none
      | some l => match pstep cfg jobs raws walkSups s l with
        | none => none
        | some s' => pWalk cfg jobs raws fuel (lcg seed) s' (n + 1)

def insertStr (a : String) : List String → List String
  | [] => [a]
  | b :: r => if a ≤ b then a :: b :: r else b :: insertStr a r

def showOutcome (o : Outcome) : String :=
  let ms := (o.sink.reported.map (showMsg "")).foldr insertStr []
  s!"result={o.result} crit={b01 o.sink.crit} n={ms.length} [" ++ " | ".intercalate ms ++ "]"

/-- what every schedule must agree on when the key is the id: the multiset of printed keys, the result counter, the critical flag -/
def showKeys (o : Outcome) : String :=
  let ks := (o.sink.reported.map (fun m => toHex m.id)).foldr insertStr []
  s!"result={o.result} crit={b01 o.sink.crit} [" ++ " ".intercalate ks ++ "]"

def pfiles : Nat → P (List (List Msg))
  | 0 => pure []
  | n + 1 => do let k ← pnat; let ms ← prep pmsg k; let r ← pfiles n; pure (ms :: r)

def keyOf (k : Nat) (m : Msg) : Str :=
  let (file, line) : Str × Int := match m.stack.getLast? with
    | some l => (l.file, l.line)
    | none => ("nofile".toList, 0)
  match k with
  | 0 => m.id
  | 1 => m.id ++ '|' :: file
  | _ => m.id ++ '|' :: file ++ '|' :: renderInt line

def pview : P (Str × Str × Int) := do let a ← pstr; let b ← pstr; let c ← pint; pure (a, b, c)

def praw : P Raw := do
  let m ← pmsg; let l ← pbool; let nf ← pbool
  pure { msg := m, locSup := l, locSupX := l, noFail := nf }

def prawfiles : Nat → P (List (List Raw))
  | 0 => pure []
  | n + 1 => do let k ← pnat; let rs ← prep praw k; let r ← prawfiles n; pure (rs :: r)

def showKeysBy (cfg : Cfg) (o : Outcome) : String :=
  let ks := (o.sink.reported.map (fun m => toHex (cfg.key2 m))).foldr insertStr []
  ",".intercalate ks ++ s!";{o.result}"

def step (line : String) : String :=
  match fields line with
  | "ser" :: rest =>
    match pmsg.run rest with
    | some (m, []) =>
      let s := serialize m
      s!"S {toHex s} | D {showDes (deserialize id s)} # t={b01 m.transportable} san={b01 (m.sanitize id == m)}"
    | _ => "bad-op"
  | ["des", h] =>
    match fromHex h with
    | some d => "D " ++ showDes (deserialize id d)
    | none => "bad-op"
  | ["fix", h] =>
    match fromHex h with
    | some d => "F " ++ toHex (fixInvalidChars d)
    | none => "bad-op"
  | ["pl", h] =>
    match fromHex h with
    | some d => match parseLine id d with
      | .ok s => "L ok " ++ showSuppr "~" s
      | .error e => "L " ++ e.code
    | none => "bad-op"
  | "senc" :: rest =>
    match psuppr.run rest with
    | some (s, []) =>
      let e := supprEncode s
      s!"E {toHex e} # t={b01 s.transportable} rt={b01 (match supprDecode id s.isInline e with | .ok s' => s' == s.transportView id | .error _ => false)}"
    | _ => "bad-op"
  | ["pw", t, h] =>
    match t.toNat?, fromHex h with
    | some t, some d => "W " ++ toHex (frame (Char.ofNat t) d)
    | _, _ => "bad-op"
  | "pwmsg" :: rest =>
    match pmsg.run rest with
    | some (m, []) => "W " ++ toHex (Ev.err m).frame
    | _ => "bad-op"
  | "wsup" :: n :: rest =>
    match n.toNat? with
    | some n => match (prep psuppr n).run rest with
      | some (l, []) => "W " ++ toHex ((writeSuppr l).flatMap fun p => (Ev.suppr p.1 p.2).frame)
      | _ => "bad-op"
    | none => "bad-op"
  | ["hr", ed, ids, h] =>
    match idsOf ids, fromHex h with
    | some ids, some bytes => hrLoop (cfgOf (ed.toNat?.getD 0) ids) (bytes.length + 2) {} bytes []
    | _, _ => "bad-op"
  | "htl" :: ed :: ids :: n :: rest =>
    match idsOf ids, n.toNat? with
    | some ids, some n => match (prep pmsg n).run rest with
      | some (ms, []) => "H " ++ htlGo (cfgOf (ed.toNat?.getD 0) ids) [] ms
      | _ => "bad-op"
    | _, _ => "bad-op"
  | "lg" :: tk :: jobs :: seed :: ng :: rest =>
    match tk.toNat?, jobs.toNat?, seed.toNat?, ng.toNat? with
    | some tk, some jobs, some seed, some ng =>
      match (do let g ← prep pview ng; let nf ← pnat; let fs ← prawfiles nf; pure (g, fs)).run rest with
      | some ((g, fs), []) =>
        let cfg : Cfg :=
          { key := keyOf tk, keyGate := keyOf tk, key2 := keyOf tk, supG := fun v => g.contains (v.errorId, v.file, v.line),
            supGX := fun v => g.contains (v.errorId, v.file, v.line), critical := fun _ => false, dedupFix := dedupFixApplied, simp := id }
        let raws : Nat → List Raw := fun i => fs.getD i []
        let files := List.range fs.length
        let single := runSingle cfg raws files
        let total := ((fs.map List.length).sum)
        let t := match tWalk cfg raws (4 * total + 4 * fs.length + 4 * jobs + 8) seed (tinit files jobs) 0 with
          | some (s, _) => showKeysBy cfg s.outcome
          | none => "stuck"
        let p := match pWalk cfg jobs raws (4 * total + 16 * fs.length + 8) seed (pinit files) 0 with
          | some (s, _) => showKeysBy cfg s.outcome
          | none => "stuck"
        let ok := files.all fun f => keyOK cfg (raws f) && dedupOK cfg (raws f)
        s!"L single={showKeysBy cfg single} thread={t} process={p} # hyp={b01 ok}"
      | _ => "bad-op"
    | _, _, _, _ => "bad-op"
  | "sched" :: kind :: jobs :: seed :: ids :: nf :: rest =>
    match jobs.toNat?, seed.toNat?, idsOf ids, nf.toNat? with
    | some jobs, some seed, some ids, some nf =>
      match (pfiles nf).run rest with
      | some (fs, []) =>
        let cfg := cfgOf 0 ids
        let raws : Nat → List Raw := fun i => (fs.getD i []).map fun m => { msg := m }
        let files := List.range fs.length
        let single := runSingle cfg raws files
        let total := (fs.map List.length).sum
        if kind == "t" then
          match tWalk cfg raws (4 * total + 4 * fs.length + 4 * jobs + 8) seed (tinit files jobs) 0 with
          | some (s, n) => s!"X steps={n} same={b01 (showKeys s.outcome == showKeys single)} {showOutcome s.outcome}"
          | none => "X stuck"
        else
          match pWalk cfg jobs raws (4 * total + 16 * fs.length + 8) seed (pinit files) 0 with
          | some (s, n) =>
            let recvOk := (s.parent.recv.map (showSuppr "")).foldr insertStr [] ==
              ((files.flatMap fun f => decodedSups cfg (walkSups f)).map (showSuppr "")).foldr insertStr []
            s!"X steps={n} same={b01 (showKeys s.outcome == showKeys single && recvOk)} {showOutcome s.outcome}"
          | none => "X stuck"
      | _ => "bad-op"
    | _, _, _, _ => "bad-op"
  | _ => "bad-op"

end Driver.C15

def main : IO Unit := Driver.mainLoop Driver.C15.step

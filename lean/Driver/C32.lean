import Driver.Common
import Cppcheck.Model.Shell
import Cppcheck.Model.GccArgs
open Cppcheck.Wire Cppcheck.Shell Cppcheck.GccArgs

/-
C32 driver.  One op per line:
  split <hexcmd>                      -> ok <hexarg>* | err
  quote {<b|d|s|x|e>:<pad>:<hexarg>}* -> <hexcmd> <argOk:0|1>        (the model's `Shell.quote`)
  qcmd {<pad>/<sty>:<hex>{+<sty>:<hex>}*}*
                                      -> <hexcmd> <segsOk:0|1> <hexarg>*   (`Shell.quoteCmd`, `segsOk`, `segText`)
  parse <hexarg>*                     -> I <list> | S <list> | D <hex> | U <list> | T <hex>
  spec <hexarg>*                      -> same line for `Spec.gcc`, followed by ` | clean <0|1> defok <0|1>`
  defs <hex>                          -> <hex>                       (`fsSetDefines`)
  simplify <hex>                      -> <hex>                       (`simplecpp::simplifyPath`)
  incs <hexbase> <hexpath>*           -> <list>                      (`fsSetIncludePaths`)
  import {<hexdir> <hexfile|!> (A <n> <hexarg>*n | C <hexcmd> | N)}*
                                      -> rc <0|1> errs <n> { || P <hexpath> id <n> | <fs line> }*
  normal <hexdef>*                    -> <hex> defok <0|1>           (`Spec.normal`)
  render {<I|S|D|U|T|F|P|O>:<joined 0|1>:<hex>[:<hex>]}*
                                      -> <hexarg>* | <fs line of `meaning`> | wf <0|1>   (`render`, `meaning`, `Opt.wf`)
A <list> is "." when empty, else comma separated hex items.
-/
namespace Driver.C32

def listStr (l : List Str) : String :=
  if l.isEmpty then "." else ",".intercalate (l.map toHex)

def fsStr (fs : FS) : String :=
  "I " ++ listStr fs.includePaths ++ " | S " ++ listStr fs.systemIncludePaths ++ " | D " ++ toHex fs.defs ++
  " | U " ++ listStr fs.undefs ++ " | T " ++ toHex fs.standard

def hexAll : List String → Option (List Str)
  | [] => some []
  | s :: r => match fromHex s, hexAll r with
    | some a, some t => some (a :: t)
    | _, _ => none

def styleOf : String → Option Style
  | "b" => some .bare | "d" => some .dq | "s" => some .sq | "x" => some .shlex | "e" => some .esc | _ => none

def quoteItems : List String → Option (List (Style × Nat × Str))
  | [] => some []
  | s :: r =>
    match s.splitOn ":" with
    | [st, pad, h] =>
      match styleOf st, pad.toNat?, fromHex h, quoteItems r with
      | some st, some pad, some a, some t => some ((st, pad, a) :: t)
      | _, _, _, _ => none
    | _ => none

def segItems : List String → Option (List (Style × Str))
  | [] => some []
  | s :: r =>
    match s.splitOn ":" with
    | [st, h] =>
      match styleOf st, fromHex h, segItems r with
      | some st, some a, some t => some ((st, a) :: t)
      | _, _, _ => none
    | _ => none

def cmdItems : List String → Option (List (Nat × List (Style × Str)))
  | [] => some []
  | s :: r =>
    match s.splitOn "/" with
    | [pad, segs] =>
      match pad.toNat?, segItems (segs.splitOn "+"), cmdItems r with
      | some pad, some sg, some t => some ((pad, sg) :: t)
      | _, _, _ => none
    | _ => none

open Cppcheck.GccArgs.Import in
def parseEntries : Nat → List String → Option (List Entry)
  | _, [] => some []
  | 0, _ => none
  | fuel + 1, d :: f :: form :: r =>
    match fromHex d with
    | none => none
    | some dir =>
      let file : Option (Option Str) := if f == "!" then some none else (fromHex f).map some
      match file with
      | none => none
      | some file =>
        if form == "N" then (parseEntries fuel r).map (⟨dir, file, .neither⟩ :: ·)
        else if form == "C" then
          match r with
          | c :: r' =>
            match fromHex c, parseEntries fuel r' with
            | some cmd, some t => some (⟨dir, file, .command cmd⟩ :: t)
            | _, _ => none
          | [] => none
        else if form == "A" then
          match r with
          | n :: r' =>
            match n.toNat? with
            | some n =>
              match hexAll (r'.take n), parseEntries fuel (r'.drop n) with
              | some args, some t => if (r'.take n).length = n then some (⟨dir, file, .arguments args⟩ :: t) else none
              | _, _ => none
            | none => none
          | [] => none
        else none
  | _, _ => none

open Cppcheck.GccArgs.Import in
def importStr (es : List Entry) : String :=
  let r := importEntries es 0 []
  "rc " ++ boolStr r.ok ++ " errs " ++ toString r.errors ++
    String.join (r.files.map fun x => " || P " ++ toHex x.path ++ " id " ++ toString x.fileId ++ " | " ++ fsStr x.fs)

def optItems : List String → Option (List Opt)
  | [] => some []
  | s :: r =>
    match optItems r with
    | none => none
    | some t =>
      match s.splitOn ":" with
      | [k, j, h] =>
        match fromHex h with
        | none => none
        | some v =>
          let jn := j == "1"
          if k == "I" then some (.inc v jn :: t)
          else if k == "S" then some (.sysinc v jn :: t)
          else if k == "D" then some (.define v jn :: t)
          else if k == "U" then some (.undef v jn :: t)
          else if k == "T" then some (.std v :: t)
          else if k == "F" then some (.flag v :: t)
          else if k == "O" then some (.other v :: t)
          else none
      | [k, _, h, h2] =>
        match fromHex h, fromHex h2 with
        | some o, some v => if k == "P" then some (.sepOther o v :: t) else none
        | _, _ => none
      | _ => none

def step (line : String) : String :=
  match fields line with
  | "split" :: [h] =>
    match fromHex h with
    | some cmd =>
      match collectArgs cmd with
      | .ok args => " ".intercalate ("ok" :: args.map toHex)
      | .missingQuote => "err"
    | none => "bad-op"
  | ["split"] =>
    match collectArgs [] with
    | .ok args => " ".intercalate ("ok" :: args.map toHex)
    | .missingQuote => "err"
  | "quote" :: items =>
    match quoteItems items with
    | some l => toHex (quote l) ++ " " ++ boolStr (l.all argOk)
    | none => "bad-op"
  | "qcmd" :: items =>
    match cmdItems items with
    | some l => " ".intercalate (toHex (quoteCmd l) :: boolStr (l.all segsOk) :: l.map fun x => toHex (segText x.2))
    | none => "bad-op"
  | "parse" :: hs =>
    match hexAll hs with
    | some args =>
      fsStr (parseArgs args)
    | none => "bad-op"
  | "spec" :: hs =>
    match hexAll hs with
    | some args =>
      let o := Spec.gcc args {}
      fsStr o.toFS ++ " | clean " ++ boolStr (clean args) ++ " defok " ++ boolStr (o.defines.all defOk)
    | none => "bad-op"
  | "defs" :: [h] =>
    match fromHex h with
    | some s => toHex (fsSetDefines s)
    | none => "bad-op"
  | "simplify" :: [h] =>
    match fromHex h with
    | some s => toHex (Import.simplifyPath s)
    | none => "bad-op"
  | "incs" :: b :: hs =>
    match fromHex b, hexAll hs with
    | some base, some l => listStr (Import.fsSetIncludePaths base l [] [])
    | _, _ => "bad-op"
  | "import" :: toks =>
    match parseEntries (toks.length + 1) toks with
    | some es => importStr es
    | none => "bad-op"
  | "render" :: items =>
    match optItems items with
    | some l =>
      " ".intercalate ((render l).map toHex) ++ " | " ++ fsStr (meaning l {}).toFS ++ " | wf " ++ boolStr (l.all Opt.wf)
    | none => "bad-op"
  | "normal" :: hs =>
    match hexAll hs with
    | some ds => toHex (Spec.normal ds) ++ " defok " ++ boolStr (ds.all defOk)
    | none => "bad-op"
  | _ => "bad-op"

end Driver.C32

def main : IO Unit := Driver.mainLoop Driver.C32.step

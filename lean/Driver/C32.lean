import Driver.Common
import Cppcheck.Model.Shell
import Cppcheck.Model.GccArgs
open Cppcheck.Wire Cppcheck.Shell Cppcheck.GccArgs

/-
C32 driver.  One op per line:
  split <hexcmd>                      -> ok <hexarg>* | err
  quote {<b|d|s|x>:<pad>:<hexarg>}*   -> <hexcmd> <argOk:0|1>        (the model's `Shell.quote`)
  parse <hexarg>*                     -> I <list> | S <list> | D <hex> | U <list> | T <hex>   or  oob
  spec <hexarg>*                      -> same line for `Spec.gcc`, followed by ` | clean <0|1> defok <0|1>`
  defs <hex>                          -> <hex>                       (`fsSetDefines`)
  normal <hexdef>*                    -> <hex> defok <0|1>           (`Spec.normal`)
A <list> is "." when empty, else comma separated hex items.
-/
namespace Driver.C32

def listStr (l : List Str) : String :=
  if l.isEmpty then "." else ",".intercalate (l.map toHex)

def fsStr (fs : FS) : String :=
  "I " ++ listStr fs.includePaths ++ " | S " ++ listStr fs.systemIncludePaths ++ " | D " ++ toHex fs.defs ++
  " | U " ++ listStr fs.undefs ++ " | T " ++ toHex fs.standard

def hexAll : List String → Option (List Str)
  | [] => some []
  | s :: r => match fromHex s, hexAll r with
    | some a, some t => some (a :: t)
    | _, _ => none

def styleOf : String → Option Style
  | "b" => some .bare | "d" => some .dq | "s" => some .sq | "x" => some .shlex | _ => none

def quoteItems : List String → Option (List (Style × Nat × Str))
  | [] => some []
  | s :: r =>
    match s.splitOn ":" with
    | [st, pad, h] =>
      match styleOf st, pad.toNat?, fromHex h, quoteItems r with
      | some st, some pad, some a, some t => some ((st, pad, a) :: t)
      | _, _, _, _ => none
    | _ => none

def step (line : String) : String :=
  match fields line with
  | "split" :: [h] =>
    match fromHex h with
    | some cmd =>
      match collectArgs cmd with
      | .ok args => " ".intercalate ("ok" :: args.map toHex)
      | .missingQuote => "err"
    | none => "bad-op"
  | ["split"] =>
    match collectArgs [] with
    | .ok args => " ".intercalate ("ok" :: args.map toHex)
    | .missingQuote => "err"
  | "quote" :: items =>
    match quoteItems items with
    | some l => toHex (quote l) ++ " " ++ boolStr (l.all argOk)
    | none => "bad-op"
  | "parse" :: hs =>
    match hexAll hs with
    | some args =>
      match parseArgs args with
      | some fs => fsStr fs
      | none => "oob"
    | none => "bad-op"
  | "spec" :: hs =>
    match hexAll hs with
    | some args =>
      let o := Spec.gcc args {}
      fsStr o.toFS ++ " | clean " ++ boolStr (clean args) ++ " defok " ++ boolStr (o.defines.all defOk)
    | none => "bad-op"
  | "defs" :: [h] =>
    match fromHex h with
    | some s => toHex (fsSetDefines s)
    | none => "bad-op"
  | "normal" :: hs =>
    match hexAll hs with
    | some ds => toHex (Spec.normal ds) ++ " defok " ++ boolStr (ds.all defOk)
    | none => "bad-op"
  | _ => "bad-op"

end Driver.C32

def main : IO Unit := Driver.mainLoop Driver.C32.step

import Driver.Common
import Cppcheck.Model.Addon
open Cppcheck.Wire Cppcheck.Addon

namespace Driver.C34

def parseV (s : String) : Option V :=
  if s == "o" then some .other
  else if s.startsWith "i" then (s.drop 1).toString.toInt?.map V.int
  else if s.startsWith "s" then (fromHex (s.drop 1).toString).map V.str
  else none

/-- `k=V,k=V` (keys hex) ; "." = no members -/
def parseFields (s : String) : Option Fields :=
  if s == "." then some [] else
  (s.splitOn ",").foldr (fun kv acc =>
    match acc, kv.splitOn "=" with
    | some fs, [k, v] =>
      match fromHex k, parseV v with
      | some k, some v => some ((k, v) :: fs)
      | _, _ => none
    | _, _ => none) (some [])

def parseLoc (s : String) : Option LocsJ :=
  if s == "a" then some .absent
  else if s == "n" then some .notArray
  else if s == "r" then some (.arr [])
  else if s.startsWith "r" then
    let items := ((s.drop 1).toString.splitOn ";")
    let r := items.foldr (fun it acc =>
      match acc with
      | none => none
      | some l => if it == "x" then some (none :: l) else (parseFields it).map (fun f => some f :: l)) (some [])
    r.map LocsJ.arr
  else none

def parseLine (s : String) : Option Line :=
  if s == "E" then some .empty
  else if s == "C" then some .checking
  else if s == "N" then some .notBrace
  else if s == "B" then some .badJson
  else match s.splitOn ":" with
    | ["O", f, l, m] =>
      match parseFields f, parseLoc l with
      | some f, some l =>
        let m := if m == "-" then some none else if m == "t" then some (some true) else if m == "f" then some (some false) else none
        m.map fun m => .obj ⟨f, l, m⟩
      | _, _ => none
    | _ => none

def sevName : Sev → String
  | .none => "none" | .error => "error" | .warning => "warning" | .style => "style" | .performance => "performance"
  | .portability => "portability" | .information => "information" | .debug => "debug" | .internal => "internal"

def optInt : Option Int → String
  | none => "~" | some i => toString i

def findingStr (f : Finding) : String :=
  toHex f.id ++ "|" ++ sevName f.sev ++ "|" ++ toHex f.msg ++ "|" ++
    ",".intercalate (f.locs.map fun l => toHex l.file ++ "@" ++ toString l.line ++ "@" ++ toString l.col ++ "@" ++ toHex l.info) ++ "|" ++
    optInt f.cwe ++ "|" ++ optInt f.hash

def sevBit : Sev → Nat
  | .error => 0 | .warning => 1 | .style => 2 | .performance => 3 | .portability => 4 | .information => 5 | .debug => 6
  | .none => 7 | .internal => 8

def kindChar : Line → Char
  | .empty => 'E' | .checking => 'C' | .notBrace => 'N' | .badJson => 'B' | .obj _ => 'O'

def className : OutClass → String
  | .clean => "clean" | .skippedLines => "skipped" | .exitNonZero => "exit" | .nonBrace => "nonbrace" | .illTyped => "illtyped"

/-- `idhex|~ / filehex|~ / line|~`, items separated by ","; "." = none -/
def parseSupps (s : String) : Option (List SimpleSupp) :=
  if s == "." then some [] else
  (s.splitOn ",").foldr (fun it acc =>
    match acc, it.splitOn "/" with
    | some l, [i, f, n] =>
      let oi := if i == "~" then some none else (fromHex i).map some
      let of := if f == "~" then some none else (fromHex f).map some
      let on := if n == "~" then some none else n.toInt?.map some
      match oi, of, on with
      | some oi, some of, some on => some (⟨oi, of, on⟩ :: l)
      | _, _, _ => none
    | _, _ => none) (some [])

/-- parse verdicts given for the brace lines, in order: `B` = picojson error / not an object -/
def parseVerdict (s : String) : Option (Option ObjLine) :=
  if s == "B" then some none
  else match parseLine s with
    | some (.obj ob) => some (some ob)
    | _ => none

def step (line : String) : String :=
  match fields line with
  | "relay" :: ec :: mask :: file0 :: supps :: text :: verdicts =>
    -- the whole captured output as raw text; the JSON verdict of every line that starts with `{`, in order
    match ec.toNat?, mask.toNat?, fromHex file0, parseSupps supps, fromHex text with
    | some ec, some mask, some file0, some ss, some text =>
      let vs := verdicts.map parseVerdict
      if vs.any Option.isNone then "bad-op verdict" else
      let vs := vs.filterMap id
      let braces := (splitLines text).filter fun l => rawKind l = .brace
      if braces.length ≠ vs.length then "bad-op brace-count " ++ toString braces.length else
      let table := braces.zip vs
      let parse : Str → Option ObjLine := fun l => match table.find? (fun p => p.1 = l) with | some p => p.2 | none => none
      let lines := linesOf parse text
      let o : Opts := ⟨fun s => (mask >>> sevBit s) % 2 == 1, ec⟩
      let supp := simpleSupp ss file0
      let r := relay o lines
      (if r.isFailed then "failed" else "ok") ++ " " ++ className (outClass o lines) ++ " " ++
        toString (exitStatus 9 o supp file0 lines) ++ " " ++ boolStr (internalErrorShown o supp file0 lines) ++ " " ++
        String.ofList ('k' :: lines.map kindChar) ++ " " ++
        " ".intercalate ((relayShown o supp lines).map findingStr)
    | _, _, _, _, _ => "bad-op"
  | "ctuinfo" :: bd :: mask :: rest =>
    -- rest: groups separated by "/" : the output lines of each addon (all exit 0), in the order the addons ran
    match mask.toNat? with
    | some mask =>
      let groups := (rest.foldl (fun (acc : List (List String)) tok =>
        if tok == "/" then [] :: acc else match acc with
          | [] => [[tok]]
          | g :: r => (g ++ [tok]) :: r) [[]]).reverse
      let parsed := groups.map (fun g => g.map parseLine)
      if parsed.any (fun g => g.any Option.isNone) then "bad-op" else
      let o : Opts := ⟨fun s => (mask >>> sevBit s) % 2 == 1, 0⟩
      let info := ctuInfo (bd == "1") o (parsed.map (fun g => g.filterMap id))
      "ctu " ++ " ".intercalate (info.map fun ob => match getStr "summary" ob.fields with | some n => toHex n | none => "?")
    | none => "bad-op"
  | _ => "bad-op"

end Driver.C34

def main : IO Unit := Driver.mainLoop Driver.C34.step

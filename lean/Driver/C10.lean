import Driver.Common
import Cppcheck.Model.MathLit
import Cppcheck.Model.CharLit
import Cppcheck.Model.Trunc
import Cppcheck.Model.Platforms
import Cppcheck.Gen.Platforms
open Cppcheck.Wire Cppcheck.MathLit Cppcheck.CharLit Cppcheck.Trunc Cppcheck.Platforms

/-
C10 line-protocol driver.  ops:
  cls <hex>                         classification flags
  big <hex>                         toBigNumber | toBigUNumber
  chr <hex>                         characterLiteralToLL
  cch <hex>                         Token::isCChar / isCMultiChar of a character-literal token
  sfx <hex>                         getSuffix
  trunc <int> <size> <signed>       truncateIntValue
  minmax <bits> <unsigned>          getMinMaxValues
  const <int> <cchar> <u|s|-> <charbit> <unsigned> <size> <bits|-1>   literal branch of valueFlowSetConstantValue
  cast <value> <signed> <bit>       castValue (integer part)
  fold <lnot|bnot|neg|plus> <operand value> <operand unsigned> <operand type> <int_bit> <long_bit> <token unsigned> <token size>
                                    unary folding of setTokenValue + its guard
  cun <op> <value> <operand bits> <unsigned> <int_bit>   SPEC: promoted type and C value of `op x`
  lit <sign> <base> <upper> <hexdigits> <hexsuffix>   SPEC: well-formedness, spelling and value of a literal
  clit <kind> <elem>*               SPEC: well-formedness, spelling and value of a character literal
  plat <name>                       platform record (generated table)
  sizeof <name> <ctype>             ValueType::getSizeOf / bits
-/
namespace Driver.C10

def b (x : Bool) : String := if x then "1" else "0"

def errStr : Err → String
  | .outOfRange => "out_of_range" | .invalidArgument => "invalid_argument" | .notConsumed => "not_consumed" | .badChar => "bad_char"

def resStr : Res → String
  | .ok v => "ok:" ++ toString v
  | .float => "float"
  | .err e => "err:" ++ errStr e

def cerrStr : CErr → String
  | .expectedLiteral => "expected_literal" | .rawQuote => "raw_quote" | .multiWide => "multi_wide"
  | .unexpectedEnd => "unexpected_end" | .expectedDigit => "expected_digit" | .codePointTooLarge => "code_point_too_large"
  | .surrogate => "surrogate" | .invalidEscape => "invalid_escape" | .invalidUtf8 => "invalid_utf8" | .utf8Ends => "utf8_ends"
  | .numericTooLarge => "numeric_too_large" | .missingQuote => "missing_quote" | .empty => "empty" | .fuel => "FUEL"

def ctypeOf : String → Option CType
  | "bool" => some .bool | "char" => some .char | "short" => some .short | "wchar" => some .wchar | "int" => some .int
  | "long" => some .long | "longlong" => some .longlong | "float" => some .float | "double" => some .double
  | "longdouble" => some .longdouble | "pointer" => some .pointer | _ => none

def baseOf : String → Option Base
  | "d" => some .dec | "x" => some .hex | "o" => some .oct | "b" => some .bin | _ => none

def signOf : String → Option (Option Bool)
  | "-" => some none | "p" => some (some false) | "m" => some (some true) | _ => none

def kindOf : String → Option Kind
  | "n" => some .narrow | "8" => some .utf8 | "16" => some .utf16 | "w" => some .wide | _ => none

def elemOf (f : String) : Option CElem :=
  match f.splitOn ":" with
  | [t, h] =>
    match fromHex h with
    | some s =>
      match t, s with
      | "p", [c] => some (.plain c)
      | "s", [c] => some (.simple c)
      | "o", ds => some (.oct ds)
      | "x", ds => some (.hex ds)
      | "u", ds => some (.ucn4 ds)
      | "U", ds => some (.ucn8 ds)
      | _, _ => none
    | none => none
  | _ => none

def elemsOf : List String → Option (List CElem)
  | [] => some []
  | f :: r => match elemOf f, elemsOf r with
    | some e, some es => some (e :: es)
    | _, _ => none

def unopOf : String → Option UnOp
  | "lnot" => some .lnot | "bnot" => some .bnot | "neg" => some .neg | "plus" => some .plus | _ => none

def ityOf : String → Option ITy
  | "bool" => some .bool | "char" => some .char | "short" => some .short | "int" => some .int | "long" => some .long
  | "longlong" => some .longlong | _ => none

def findPlat (n : String) : Option Platform := Cppcheck.Gen.Platforms.all.find? (·.name == n)

def platStr (p : Platform) : String :=
  s!"cb={p.charBit} bool={p.sizeofBool} short={p.sizeofShort} int={p.sizeofInt} long={p.sizeofLong} llong={p.sizeofLongLong} " ++
  s!"float={p.sizeofFloat} double={p.sizeofDouble} ldouble={p.sizeofLongDouble} wchar={p.sizeofWchar} size_t={p.sizeofSizeT} " ++
  s!"ptr={p.sizeofPointer} sign={if p.charUnsigned then "u" else "s"} win={b p.windows} " ++
  s!"bits={p.charBit * p.sizeofShort},{p.charBit * p.sizeofInt},{p.charBit * p.sizeofLong},{p.charBit * p.sizeofLongLong}"

def step (line : String) : String :=
  match fields line with
  | ["cls", h] =>
    match fromHex h with
    | some s =>
      s!"dec={b (isDec s)} hex={b (isIntHex s)} oct={b (isOct s)} bin={b (isBin s)} int={b (isInt s)} dflt={b (isDecimalFloat s)} " ++
      s!"hflt={b (isFloatHex s)} flt={b (isFloat s)} neg={b (isNegative s)} pos={b (isPositive s)} chr={b (isCharLiteral s)} " ++
      s!"sfx={b (isValidIntegerSuffix s true)} sfxn={b (isValidIntegerSuffix s false)}"
    | none => "bad-hex"
  | ["big", h] =>
    match fromHex h with
    | some s => "B " ++ resStr (toBigNumber s) ++ " | U " ++ resStr (toBigUNumber s)
    | none => "bad-hex"
  | ["chr", h] =>
    match fromHex h with
    | some s =>
      match characterLiteralToLL s with
      | .ok v => "ok:" ++ toString v
      | .error e => "err:" ++ cerrStr e
    | none => "bad-hex"
  | ["cch", h] =>
    match fromHex h with
    | some s => if isCharLiteral s then s!"cchar={b (isCChar s)} multi={b (isCMultiChar s)}" else "notchar"
    | none => "bad-hex"
  | ["sfx", h] =>
    match fromHex h with
    | some s => toHex (getSuffix s)
    | none => "bad-hex"
  | ["trunc", v, n, s] =>
    match v.toInt?, n.toNat? with
    | some v, some n =>
      match truncateIntValue v n (s == "1") with
      | some r => toString r
      | none => "undefined"
    | _, _ => "bad-op"
  | ["minmax", bits, u] =>
    match bits.toNat? with
    | some bits =>
      match getMinMaxValues bits (u == "1") with
      | some (lo, hi) => s!"{lo} {hi}"
      | none => "none"
    | none => "bad-op"
  | ["const", v, cc, cs, cb, u, n, bits] =>
    match v.toInt?, cb.toNat?, n.toNat?, bits.toInt? with
    | some v, some cb, some n, some bits =>
      let sign : Option Bool := if cs == "u" then some true else if cs == "s" then some false else none
      match constValue v (cc == "1") sign cb (u == "1") n (if bits < 0 then none else some bits.toNat) with
      | some r => toString r
      | none => "novalue"
    | _, _, _, _ => "bad-op"
  | ["cast", v, sg, bit] =>
    match v.toInt?, bit.toNat? with
    | some v, some bit => toString (castValue v (sg == "1") bit)
    | _, _ => "bad-op"
  | ["fold", op, v, u, ty, ib, lb, tu, tsz] =>
    match unopOf op, v.toInt?, ityOf ty, ib.toNat?, lb.toNat?, tsz.toNat? with
    | some op, some v, some ty, some ib, some lb, some tsz =>
      match setGuard (foldUnary op v (u == "1") ty ib lb) (tu == "1") tsz with
      | some r => toString r
      | none => "novalue"
    | _, _, _, _, _, _ => "bad-op"
  | ["cun", op, v, bits, u, ib] =>
    match unopOf op, v.toInt?, bits.toNat?, ib.toNat? with
    | some op, some v, some bits, some ib =>
      let (pb, pu) := promote bits (u == "1") ib
      s!"{cUnary op v bits (u == "1") ib} pbits={pb} punsigned={b pu}"
    | _, _, _, _ => "bad-op"
  | ["lit", sg, bs, up, dh, sh] =>
    match signOf sg, baseOf bs, fromHex dh, fromHex sh with
    | some sg, some bs, some ds, some suf =>
      let l : Lit := ⟨sg, bs, up == "1", ds, suf⟩
      s!"wf={b l.WF} canon={b l.canonical} render={toHex (render l)} value={l.value} mag={l.magnitude}"
    | _, _, _, _ => "bad-op"
  | "clit" :: k :: es =>
    match kindOf k, elemsOf es with
    | some k, some es =>
      let c : CharLit := ⟨k, es⟩
      s!"wf={b c.WF} q={b (hex0x c.elems)} render={toHex c.render} value={c.value}"
    | _, _ => "bad-op"
  | ["plat", n] =>
    match findPlat n with
    | some p => platStr p
    | none => "unknown-platform"
  | ["sizeof", n, t] =>
    match findPlat n, ctypeOf t with
    | some p, some t =>
      let mm (u : Bool) : String :=
        match (bitsOf p t).bind (getMinMaxValues · u) with
        | some (lo, hi) => s!"{lo},{hi}"
        | none => "none"
      s!"{sizeOf p t} s:{mm false} u:{mm true}"
    | _, _ => "bad-op"
  | _ => "bad-op"

end Driver.C10

def main : IO Unit := Driver.mainLoop Driver.C10.step

import Driver.Common
import Cppcheck.Model.MathLit
import Cppcheck.Model.CharLit
import Cppcheck.Model.Trunc
import Cppcheck.Model.Platforms
import Cppcheck.Gen.Platforms
open Cppcheck.Wire Cppcheck.MathLit Cppcheck.CharLit Cppcheck.Trunc Cppcheck.Platforms

/-
C10 line-protocol driver.  ops:
  cls <hex>                         classification flags
  big <hex>                         toBigNumber | toBigUNumber
  chr <hex>                         characterLiteralToLL
  sfx <hex>                         getSuffix
  trunc <int> <size> <signed>       truncateIntValue
  minmax <bits> <unsigned>          getMinMaxValues
  const <int> <unsigned> <size> <bits|-1>   literal branch of valueFlowSetConstantValue
  plat <name>                       platform record (generated table)
  sizeof <name> <ctype>             ValueType::getSizeOf / bits
-/
namespace Driver.C10

def b (x : Bool) : String := if x then "1" else "0"

def errStr : Err → String
  | .outOfRange => "out_of_range" | .invalidArgument => "invalid_argument" | .notConsumed => "not_consumed" | .badChar => "bad_char"

def resStr : Res → String
  | .ok v => "ok:" ++ toString v
  | .float => "float"
  | .err e => "err:" ++ errStr e

def cerrStr : CErr → String
  | .expectedLiteral => "expected_literal" | .rawQuote => "raw_quote" | .multiWide => "multi_wide"
  | .unexpectedEnd => "unexpected_end" | .expectedDigit => "expected_digit" | .codePointTooLarge => "code_point_too_large"
  | .surrogate => "surrogate" | .invalidEscape => "invalid_escape" | .invalidUtf8 => "invalid_utf8" | .utf8Ends => "utf8_ends"
  | .numericTooLarge => "numeric_too_large" | .missingQuote => "missing_quote" | .empty => "empty" | .fuel => "FUEL"

def ctypeOf : String → Option CType
  | "bool" => some .bool | "char" => some .char | "short" => some .short | "wchar" => some .wchar | "int" => some .int
  | "long" => some .long | "longlong" => some .longlong | "float" => some .float | "double" => some .double
  | "longdouble" => some .longdouble | "pointer" => some .pointer | _ => none

def findPlat (n : String) : Option Platform := Cppcheck.Gen.Platforms.all.find? (·.name == n)

def platStr (p : Platform) : String :=
  s!"cb={p.charBit} bool={p.sizeofBool} short={p.sizeofShort} int={p.sizeofInt} long={p.sizeofLong} llong={p.sizeofLongLong} " ++
  s!"float={p.sizeofFloat} double={p.sizeofDouble} ldouble={p.sizeofLongDouble} wchar={p.sizeofWchar} size_t={p.sizeofSizeT} " ++
  s!"ptr={p.sizeofPointer} sign={if p.charUnsigned then "u" else "s"} win={b p.windows} " ++
  s!"bits={p.charBit * p.sizeofShort},{p.charBit * p.sizeofInt},{p.charBit * p.sizeofLong},{p.charBit * p.sizeofLongLong}"

def step (line : String) : String :=
  match fields line with
  | ["cls", h] =>
    match fromHex h with
    | some s =>
      s!"dec={b (isDec s)} hex={b (isIntHex s)} oct={b (isOct s)} bin={b (isBin s)} int={b (isInt s)} dflt={b (isDecimalFloat s)} " ++
      s!"hflt={b (isFloatHex s)} flt={b (isFloat s)} neg={b (isNegative s)} pos={b (isPositive s)} chr={b (isCharLiteral s)} " ++
      s!"sfx={b (isValidIntegerSuffix s true)} sfxn={b (isValidIntegerSuffix s false)}"
    | none => "bad-hex"
  | ["big", h] =>
    match fromHex h with
    | some s => "B " ++ resStr (toBigNumber s) ++ " | U " ++ resStr (toBigUNumber s)
    | none => "bad-hex"
  | ["chr", h] =>
    match fromHex h with
    | some s =>
      match characterLiteralToLL s with
      | .ok v => "ok:" ++ toString v
      | .error e => "err:" ++ cerrStr e
    | none => "bad-hex"
  | ["sfx", h] =>
    match fromHex h with
    | some s => toHex (getSuffix s)
    | none => "bad-hex"
  | ["trunc", v, n, s] =>
    match v.toInt?, n.toNat? with
    | some v, some n =>
      match truncateIntValue v n (s == "1") with
      | some r => toString r
      | none => "undefined"
    | _, _ => "bad-op"
  | ["minmax", bits, u] =>
    match bits.toNat? with
    | some bits =>
      match getMinMaxValues bits (u == "1") with
      | some (lo, hi) => s!"{lo} {hi}"
      | none => "none"
    | none => "bad-op"
  | ["const", v, u, n, bits] =>
    match v.toInt?, n.toNat?, bits.toInt? with
    | some v, some n, some bits =>
      match constValue v (u == "1") n (if bits < 0 then none else some bits.toNat) with
      | some r => toString r
      | none => "novalue"
    | _, _, _ => "bad-op"
  | ["plat", n] =>
    match findPlat n with
    | some p => platStr p
    | none => "unknown-platform"
  | ["sizeof", n, t] =>
    match findPlat n, ctypeOf t with
    | some p, some t =>
      let mm (u : Bool) : String :=
        match (bitsOf p t).bind (getMinMaxValues · u) with
        | some (lo, hi) => s!"{lo},{hi}"
        | none => "none"
      s!"{sizeOf p t} s:{mm false} u:{mm true}"
    | _, _ => "bad-op"
  | _ => "bad-op"

end Driver.C10

def main : IO Unit := Driver.mainLoop Driver.C10.step

import Driver.Common
import Cppcheck.Model.ExitCode
open Cppcheck.Wire Cppcheck.ExitCode

/-
op line:
  run <unmatchedNofail> <checkConfigLogger> <code> <safety> <checkConfig> <emitDup> <executor 0|1|2> <project>
      <wp1Errors> <gate> <lost> files <k> (<n> <finding>*n)*k wp1 <n> <finding>*n wp2 <n> <finding>*n um <n> <finding>*n
  finding = <key>:<9 bits internal libSkip emptyText critical nomsgLocal nomsgGlobal explLocal explGlobal nofail>
answer:
  status=<n> ret=<int> rv1=<n> crit=<0|1> printed=<keys in print order, comma separated | ->
-/
namespace Driver.C25

def bit (c : Char) : Bool := c == '1'

def parseFinding (s : String) : Option Finding :=
  match s.splitOn ":" with
  | [k, b] =>
    match k.toNat?, b.toList with
    | some k, [a, b, c, d, e, f, g, h, i] =>
      some { key := k, internal := bit a, libSkip := bit b, emptyText := bit c, critical := bit d, nomsgLocal := bit e,
             nomsgGlobal := bit f, explLocal := bit g, explGlobal := bit h, nofail := bit i }
    | _, _ => none
  | _ => none

def takeFindings : Nat → List String → Option (List Finding × List String)
  | 0, r => some ([], r)
  | n + 1, s :: r =>
    match parseFinding s, takeFindings n r with
    | some f, some (fs, rest) => some (f :: fs, rest)
    | _, _ => none
  | _ + 1, [] => none

def takeSection (tag : String) : List String → Option (List Finding × List String)
  | t :: n :: r => if t == tag then (match n.toNat? with | some n => takeFindings n r | none => none) else none
  | _ => none

def takeFiles : Nat → List String → Option (List (List Finding) × List String)
  | 0, r => some ([], r)
  | k + 1, n :: r =>
    match n.toNat? with
    | some n =>
      match takeFindings n r with
      | some (fs, rest) =>
        match takeFiles k rest with
        | some (fss, rest') => some (fs :: fss, rest')
        | none => none
      | none => none
    | none => none
  | _ + 1, [] => none

def parseInt (s : String) : Option Int :=
  if s.startsWith "-" then (s.drop 1).toNat?.map (fun n => - (Int.ofNat n)) else s.toNat?.map Int.ofNat

def parseExec : String → Option Executor
  | "0" => some .single | "1" => some .thread | "2" => some .process | _ => none

def parseRun : List String → Option Run
  | un :: cc :: code :: safety :: chk :: dup :: ex :: proj :: w1e :: gate :: lost :: "files" :: k :: rest =>
    match parseInt code, parseExec ex, lost.toNat?, k.toNat? with
    | some code, some ex, some lost, some k =>
      match takeFiles k rest with
      | some (files, r1) =>
        match takeSection "wp1" r1 with
        | some (wp1, r2) =>
          match takeSection "wp2" r2 with
          | some (wp2, r3) =>
            match takeSection "um" r3 with
            | some (um, []) =>
              some { v := ⟨un == "1", cc == "1"⟩,
                     o := { errorExitCode := code, safety := safety == "1", checkConfig := chk == "1", emitDuplicates := dup == "1",
                            executor := ex, project := proj == "1" },
                     files := files, wp1 := wp1, wp1Errors := w1e == "1", wp2 := wp2, unmatchedGate := gate == "1",
                     unmatched := um, lostPipes := lost }
            | _ => none
          | none => none
        | none => none
      | none => none
    | _, _, _, _ => none
  | _ => none

def keysStr (l : List Finding) : String :=
  if l.isEmpty then "-" else ",".intercalate (l.map fun f => toString f.key)

def step (line : String) : String :=
  match fields line with
  | "run" :: rest =>
    match parseRun rest with
    | some r =>
      s!"status={exitStatus r} ret={mainReturn r} rv1={rv1 r} crit={boolStr (hasCritical r)} printed={keysStr (printed r)}"
    | none => "bad-op"
  | _ => "bad-op"

end Driver.C25

def main : IO Unit := Driver.mainLoop Driver.C25.step

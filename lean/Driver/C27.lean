import Driver.Common
import Cppcheck.Model.SevGate
import Cppcheck.Gen.SeverityGuards
open Cppcheck.Wire Cppcheck.SevGate Cppcheck.Gen.SeverityGuards

/- C27 driver.  One op per line:
     P <row> <mask>   can row <row> report under the option set <mask> for some environment with default flags? -> 1 | 0
                      (mask bit i = severity Sev.ofBit i, bit 9 = --inconclusive)
     V <row>          the per-row decisions the theorems of Props/C27.lean rest on:
                      gateOk gateOkCli incOk posOk refutesGate refutesInc                             -> six 0/1 digits
     N                number of rows / flags                                                          -> "<rows> <nFlags>"
     F <mask> <digits> Select.findValue on the value list <digits> (digit bits: inconclusive, condition, pred)  -> index | -
-/
namespace Driver.C27

def table : Array Row := rows.toArray

def step (line : String) : String :=
  match fields line with
  | ["P", i, m] =>
    match i.toNat?, m.toNat? with
    | some i, some m =>
      match table[i]? with
      | some r => boolStr (possible nFlags r.guard (Opts.ofMask m))
      | none => "norow"
    | _, _ => "bad"
  | ["V", i] =>
    match i.toNat? with
    | some i =>
      match table[i]? with
      | some r => boolStr (r.gateOk nFlags) ++ boolStr (r.gateOkCli nFlags) ++ boolStr (r.incOk nFlags) ++ boolStr (r.posOk nFlags) ++ boolStr r.refutesGate ++ boolStr r.refutesInc
      | none => "norow"
    | none => "bad"
  | ["N"] => toString table.size ++ " " ++ toString nFlags
  | ["F", m, ds] =>
    match m.toNat? with
    | some m =>
      let digits := if ds == "-" then [] else ds.toList.map (fun c => c.toNat - 48)
      match Select.findValue (Opts.ofMask m) (Select.ofDigits digits) with
      | some v => toString v.tag
      | none => "-"
    | none => "bad"
  | _ => "bad"

end Driver.C27

def main : IO Unit := Driver.mainLoop Driver.C27.step

import Driver.Common
import Cppcheck.Model.Calc
import Cppcheck.Model.Infer
import Cppcheck.Model.Trunc
import Cppcheck.Model.MiniC
import Cppcheck.Model.VFValidator
open Cppcheck.Wire Cppcheck.Calc Cppcheck.Infer
open Cppcheck.Trunc (truncateIntValue)

/-
C01 line-protocol driver.  ops (stage 1, transfer functions):
  calc <op> <x> <y>                 calculate<bigint>(op, x, y, &error)          -> ok:<r> | err
  calcn <op> <x> <y>                calculate<int>(op, x, y) (no error pointer)   -> <r>
  carryops                          operator list of the impossible-value guard of isWritable -> +=|-=|…
  carry <op> <k> <v>                carryImpossible                                -> <v'> | none
  cast <v> <signed> <bit>           castValue                                      -> <r> | undefined
  trunc <v> <size> <signed>         truncateIntValue                               -> <r> | undefined
  infer <op> <values…> / <values…>  infer(makeIntegralInferModel(), …)             -> <values…> | -
  minmaxv <values…>                 getMinValue / getMaxValue                      -> min=<v|none> max=<v|none>
value token: [~]<K|P|N|I><U|L|P><int>   (~ = not an INT value; kind Known/Possible/iNconclusive/Impossible; bound)
stage 2 (MiniC):
  validate <plat> <func> ## <fact>*      verified validator on each fact       -> one 0/1 per fact (or -)
  run <plat> <fuel> <func> ## <args>*    interpreter                            -> <outcome> <id>=<v>*
  plat = charBit,sizeofShort,sizeofInt,sizeofLong,sizeofLongLong
  func = <nparams> <nvars> <ty>* <stmt>     ty = <c|s|i|l|q><s|u>
  stmt = skip | = id x e | op= id op x e | ++ id inc pre x | ; a b | if c a b | while c b | break | continue | return e
  expr = L v ty | V x | U op e | B op a b | A a b | O a b | C ty e | Q c a b | T id e
  fact = <occ>:<K|I><U|L|P><int>
-/
namespace Driver.C01

def kindChar : Kind → Char
  | .known => 'K' | .possible => 'P' | .inconclusive => 'N' | .impossible => 'I'
def boundChar : Bound → Char
  | .upper => 'U' | .lower => 'L' | .point => 'P'

def valStr (v : Value) : String :=
  (if v.isInt then "" else "~") ++ String.singleton (kindChar v.kind) ++ String.singleton (boundChar v.bound) ++ toString v.intvalue

def parseVal (s : String) : Option Value :=
  let (isInt, cs) := match s.toList with
    | '~' :: r => (false, r)
    | r => (true, r)
  match cs with
  | k :: b :: r =>
    let kind : Option Kind := match k with
      | 'K' => some .known | 'P' => some .possible | 'N' => some .inconclusive | 'I' => some .impossible | _ => none
    let bound : Option Bound := match b with
      | 'U' => some .upper | 'L' => some .lower | 'P' => some .point | _ => none
    match kind, bound, (String.ofList r).toInt? with
    | some kind, some bound, some i => some { isInt := isInt, kind := kind, bound := bound, intvalue := i }
    | _, _, _ => none
  | _ => none

def parseVals (ss : List String) : Option (List Value) := ss.mapM parseVal

def valsStr (vs : List Value) : String :=
  if vs.isEmpty then "-" else " ".intercalate (vs.map valStr)

def optStr : Option Int → String
  | some v => toString v
  | none => "none"

/-! ### MiniC wire format -/
section MiniCWire
open Cppcheck.MiniC Cppcheck.VFV Cppcheck.Platforms

def parseTy (s : String) : Option Ty :=
  match s.toList with
  | [r, g] =>
    let rank : Option Rank := match r with
      | 'c' => some .char | 's' => some .short | 'i' => some .int | 'l' => some .long | 'q' => some .llong | _ => none
    match rank, g with
    | some rank, 's' => some ⟨rank, true⟩
    | some rank, 'u' => some ⟨rank, false⟩
    | _, _ => none
  | _ => none

def parseBinOp : String → Option BinOp
  | "+" => some .add | "-" => some .sub | "*" => some .mul | "/" => some .div | "%" => some .mod
  | "&" => some .band | "|" => some .bor | "^" => some .bxor | "<<" => some .shl | ">>" => some .shr
  | "<" => some .lt | "<=" => some .le | ">" => some .gt | ">=" => some .ge | "==" => some .eq | "!=" => some .ne
  | _ => none

def parseUnOp : String → Option UnOp
  | "-" => some .neg | "~" => some .compl | "!" => some .lnot | _ => none

def parseExpr : Nat → List String → Option (Expr × List String)
  | 0, _ => none
  | n + 1, toks =>
    match toks with
    | "L" :: v :: t :: r =>
      match v.toInt?, parseTy t with
      | some v, some t => some (.lit v t, r)
      | _, _ => none
    | "V" :: x :: r => x.toNat?.map fun x => (.var x, r)
    | "U" :: op :: r =>
      match parseUnOp op, parseExpr n r with
      | some op, some (e, r) => some (.un op e, r)
      | _, _ => none
    | "B" :: op :: r =>
      match parseBinOp op, parseExpr n r with
      | some op, some (a, r) =>
        match parseExpr n r with
        | some (b, r) => some (.bin op a b, r)
        | none => none
      | _, _ => none
    | "A" :: r =>
      match parseExpr n r with
      | some (a, r) => match parseExpr n r with
        | some (b, r) => some (.land a b, r)
        | none => none
      | none => none
    | "O" :: r =>
      match parseExpr n r with
      | some (a, r) => match parseExpr n r with
        | some (b, r) => some (.lor a b, r)
        | none => none
      | none => none
    | "C" :: t :: r =>
      match parseTy t, parseExpr n r with
      | some t, some (e, r) => some (.cast t e, r)
      | _, _ => none
    | "Q" :: r =>
      match parseExpr n r with
      | some (c, r) => match parseExpr n r with
        | some (a, r) => match parseExpr n r with
          | some (b, r) => some (.cond c a b, r)
          | none => none
        | none => none
      | none => none
    | "T" :: id :: r =>
      match id.toNat?, parseExpr n r with
      | some id, some (e, r) => some (.tag id e, r)
      | _, _ => none
    | _ => none

def parseStmt : Nat → List String → Option (Stmt × List String)
  | 0, _ => none
  | n + 1, toks =>
    match toks with
    | "skip" :: r => some (.skip, r)
    | "=" :: id :: x :: r =>
      match id.toNat?, x.toNat?, parseExpr (n + 1) r with
      | some id, some x, some (e, r) => some (.assign id x e, r)
      | _, _, _ => none
    | "op=" :: id :: op :: x :: r =>
      match id.toNat?, parseBinOp op, x.toNat?, parseExpr (n + 1) r with
      | some id, some op, some x, some (e, r) => some (.compound id op x e, r)
      | _, _, _, _ => none
    | "++" :: id :: inc :: pre :: x :: r =>
      match id.toNat?, x.toNat? with
      | some id, some x => some (.incdec id (inc == "1") (pre == "1") x, r)
      | _, _ => none
    | ";" :: r =>
      match parseStmt n r with
      | some (a, r) => match parseStmt n r with
        | some (b, r) => some (.seq a b, r)
        | none => none
      | none => none
    | "if" :: r =>
      match parseExpr (n + 1) r with
      | some (c, r) => match parseStmt n r with
        | some (a, r) => match parseStmt n r with
          | some (b, r) => some (.ite c a b, r)
          | none => none
        | none => none
      | none => none
    | "while" :: r =>
      match parseExpr (n + 1) r with
      | some (c, r) => match parseStmt n r with
        | some (b, r) => some (.while c b, r)
        | none => none
      | none => none
    | "break" :: r => some (.brk, r)
    | "continue" :: r => some (.cont, r)
    | "return" :: r =>
      match parseExpr (n + 1) r with
      | some (e, r) => some (.ret e, r)
      | none => none
    | _ => none

def parseTys : Nat → List String → Option (List Ty × List String)
  | 0, r => some ([], r)
  | n + 1, t :: r =>
    match parseTy t, parseTys n r with
    | some t, some (ts, r) => some (t :: ts, r)
    | _, _ => none
  | _ + 1, [] => none

def parseFunc (toks : List String) : Option Func :=
  match toks with
  | np :: nv :: r =>
    match np.toNat?, nv.toNat? with
    | some np, some nv =>
      match parseTys nv r with
      | some (tys, r) =>
        match parseStmt (r.length + 1) r with
        | some (body, []) => some ⟨np, tys, body⟩
        | _ => none
      | none => none
    | _, _ => none
  | _ => none

def parsePlat (s : String) : Option Platform :=
  match (s.splitOn ",").map String.toNat? with
  | [some cb, some sh, some i, some l, some ll] =>
    some { name := "wire", charBit := cb, sizeofBool := 1, sizeofShort := sh, sizeofInt := i, sizeofLong := l, sizeofLongLong := ll,
           sizeofFloat := 4, sizeofDouble := 8, sizeofLongDouble := 16, sizeofWchar := 4, sizeofSizeT := l, sizeofPointer := l,
           charUnsigned := false, windows := false }
  | _ => none

def parseFact (s : String) : Option Fact :=
  match s.splitOn ":" with
  | [occ, rest] =>
    match occ.toNat?, rest.toList with
    | some occ, k :: b :: v =>
      let kind : Option FKind := match k with | 'K' => some .known | 'I' => some .impossible | _ => none
      let bound : Option FBound := match b with | 'U' => some .upper | 'L' => some .lower | 'P' => some .point | _ => none
      match kind, bound, (String.ofList v).toInt? with
      | some kind, some bound, some v => some ⟨occ, kind, bound, v⟩
      | _, _, _ => none
    | _, _ => none
  | _ => none

def outStr : Out → String
  | .normal _ => "normal" | .brk _ => "break" | .cont _ => "continue" | .ret => "ret" | .ub => "ub" | .timeout => "timeout"

def stepMiniC (fs : List String) : Option String :=
  match fs with
  | "validate" :: plat :: rest =>
    let ftoks := rest.takeWhile (· ≠ "##")
    let facts := (rest.dropWhile (· ≠ "##")).drop 1
    match parsePlat plat, parseFunc ftoks, facts.mapM parseFact with
    | some P, some f, some facts =>
      some (if facts.isEmpty then "-" else String.ofList (facts.map fun φ => if validate P f φ then '1' else '0'))
    | _, _, _ => none
  | "run" :: plat :: fuel :: rest =>
    let ftoks := rest.takeWhile (· ≠ "##")
    let args := (rest.dropWhile (· ≠ "##")).drop 1
    match parsePlat plat, fuel.toNat?, parseFunc ftoks, args.mapM String.toInt? with
    | some P, some fuel, some f, some args =>
      let (o, evs) := run P f fuel args
      some (" ".intercalate (outStr o :: evs.map fun (id, v) => s!"{id}={v}"))
    | _, _, _, _ => none
  | _ => none

end MiniCWire

def step (line : String) : String :=
  match fields line with
  | ["calc", op, x, y] =>
    match Op.ofString op, x.toInt?, y.toInt? with
    | some op, some x, some y =>
      match calculate op x y with
      | some r => "ok:" ++ toString r
      | none => "err"
    | _, _, _ => "bad-op"
  | ["carryops"] => "|".intercalate carryOps
  | ["carry", op, k, v] =>
    match k.toInt?, v.toInt? with
    | some k, some v =>
      match carryImpossible op k v with
      | some r => toString r
      | none => "none"
    | _, _ => "bad-op"
  | ["calcn", op, x, y] =>
    match Op.ofString op, x.toInt?, y.toInt? with
    | some op, some x, some y => toString (calculateNoErr op x y)
    | _, _, _ => "bad-op"
  | ["cast", v, s, bit] =>
    match v.toInt?, bit.toNat? with
    | some v, some bit =>
      match castValue v (s == "1") bit with
      | some r => toString r
      | none => "undefined"
    | _, _ => "bad-op"
  | ["trunc", v, n, s] =>
    match v.toInt?, n.toNat? with
    | some v, some n =>
      match truncateIntValue v n (s == "1") with
      | some r => toString r
      | none => "undefined"
    | _, _ => "bad-op"
  | "infer" :: op :: rest =>
    let l := rest.takeWhile (· ≠ "/")
    let r := (rest.dropWhile (· ≠ "/")).drop 1
    match Op.ofString op, parseVals l, parseVals r with
    | some op, some l, some r => valsStr (infer op l r)
    | _, _, _ => "bad-op"
  | "minmaxv" :: rest =>
    match parseVals rest with
    | some vs => s!"min={optStr (getMinValue vs)} max={optStr (getMaxValue vs)}"
    | none => "bad-op"
  | fs =>
    match stepMiniC fs with
    | some r => r
    | none => "bad-op"

end Driver.C01

def main : IO Unit := Driver.mainLoop Driver.C01.step

import Driver.Common
import Cppcheck.Model.ClangLine
import Cppcheck.Model.ClangDeclMap
import Cppcheck.Model.Links
open Cppcheck.Wire

namespace Driver.C35
open Cppcheck Cppcheck.ClangLine Cppcheck.ClangDeclMap

def optStr : Option Nat → String
  | none => "-"
  | some v => toString v

def splitStr : Option (List (List Char)) → String
  | none => "HANG"
  | some l => toString l.length ++ String.join (l.map fun f => " " ++ toHex f)

/-- `data` op: tokens are 0..n-1; object ids are assigned per event.  The op line is first turned into the event list (the very `Ev`
    type the theorems speak about), then `runEvents {}` is run on it. -/
structure DState where
  evs : List Ev := []
  dt : Data := {}
  nobj : Nat := 0
  funcTok : List (Nat × Nat) := []     -- function object ↦ tokenDef
  enumTok : List (Nat × Nat) := []
  varAt : List (Nat × Nat) := []       -- token ↦ current Variable object declared there
  addrs : List (List Char) := []

def assoc (l : List (Nat × Nat)) (k : Nat) : Option Nat := (l.find? (·.1 == k)).map (·.2)

def dataStep (s : DState) (ev : String) (a : (List Char)) (t : Nat) : Option DState :=
  let s := if s.addrs.contains a then s else { s with addrs := s.addrs ++ [a] }
  let o := s.nobj
  if ev == "v" then some { s with evs := s.evs ++ [.varDecl a t o], nobj := o + 1, varAt := (t, o) :: s.varAt }
  else if ev == "f" then some { s with evs := s.evs ++ [.funcDecl a t o], nobj := o + 1, funcTok := (o, t) :: s.funcTok }
  else if ev == "e" then some { s with evs := s.evs ++ [.enumDecl a t o], nobj := o + 1, enumTok := (o, t) :: s.enumTok }
  else if ev == "s" then some { s with evs := s.evs ++ [.scopeDecl a o], nobj := o + 1 }
  else if ev == "r" then some { s with evs := s.evs ++ [.ref a t] }
  else if ev == "x" then
    match assoc s.varAt t with
    | some old => some { s with evs := s.evs ++ [.replace old o], nobj := o + 1, varAt := (t, o) :: s.varAt }
    | none => some s
  else none

def dataRun (s : DState) : List String → Option DState
  | [] => some { s with dt := runEvents {} s.evs }
  | ev :: a :: t :: r =>
    match fromHex a, t.toNat? with
    | some a, some t => (dataStep s ev a t).bind (dataRun · r)
    | _, _ => none
  | _ => none

def dataOut (n : Nat) (s : DState) : String :=
  let toks := String.join ((List.range n).map fun t =>
    let at_ := s.dt.attrs t
    toString at_.varId ++ "," ++ optStr (at_.var.map s.dt.varDef) ++ "," ++ optStr (at_.func.bind (assoc s.funcTok)) ++ "," ++
      optStr (at_.enumr.bind (assoc s.enumTok)) ++ ";")
  let has := String.join (s.addrs.map fun a => boolStr (s.dt.hasDecl a))
  -- getVariableList(): ret[var->declarationId()] = var for every map entry with a variable
  -- std::map iterates in key order; a later entry with the same declaration id overwrites an earlier one
  let sorted := (s.dt.declMap.mergeSort (fun a b => a.1 ≤ b.1)).reverse
  let vl := String.join ((List.range (s.dt.varId + 1)).map fun id =>
    " " ++ optStr ((sorted.findSome? fun kv =>
      if kv.2.kind = .var ∧ (s.dt.attrs (s.dt.varDef kv.2.obj)).varId = id then some (s.dt.varDef kv.2.obj) else none)))
  toks ++ " | h" ++ has ++ " | l" ++ vl

def parseLocSpec (spec : String) : Option (List (Nat × List (List Char))) :=
  (spec.splitOn ",").mapM fun item =>
    match item.splitOn ":" with
    | [d, h] =>
      match d.toNat?, fromHex h with
      | some d, some e => (splitString e).map fun toks => (d, toks)
      | _, _ => none
    | _ => none

def wellNested : Nat → List (Nat × List (List Char)) → Bool
  | _, [] => true
  | depthPrev, (d, _) :: r => d ≤ depthPrev + 1 && d ≥ 1 && wellNested d r

def intStr (i : Int) : String := toString i

/-- resolved positions of a `loc` op; the file table is the final one -/
def locRun (items : List (Nat × List (List Char))) : String :=
  -- replay to obtain the final file table
  let rec files (fs : List (List Char)) (stack : List Pos) : List (Nat × List (List Char)) → List (List Char)
    | [] => fs
    | (lv, toks) :: r =>
      let inh := if lv = 0 then (⟨0, 1, 1⟩ : Pos) else (stack[lv - 1]?).getD ⟨0, 1, 1⟩
      match setLocNode fs toks inh with
      | .error _ => fs
      | .ok (fs', p) => files fs' (stack.take lv ++ [p]) r
  match setLocSeq [] [] ⟨0, 1, 1⟩ items with
  | .error .ast => "throw ast"
  | .error .conv => "throw conv"
  | .ok ps =>
    let fs := files [] [] items
    "ok" ++ String.join (ps.map fun p => " " ++ toHex ((fs[p.file]?).getD []) ++ ":" ++ intStr p.line ++ ":" ++ intStr p.col)

def errStr : Err → String
  | .internal c => "throw " ++ c
  | .conv => "throw conv"
  | .unsupported w => "unsupported " ++ w
  | .ub w => "ub " ++ w
  | .hang => "HANG"

/-- rank of every live token (index in the final list) -/
def ranks (toks : Array Tok) : Array (Option Nat) := Id.run do
  let mut out : Array (Option Nat) := #[]
  let mut k := 0
  for t in toks do
    if t.deleted then out := out.push none
    else
      out := out.push (some k)
      k := k + 1
  return out

def rk (r : Array (Option Nat)) : Option Nat → String
  | none => "-"
  | some i => match r[i]? with | some (some k) => toString k | _ => "?"

def defOf (im : Imported) (i : Nat) : Option (Char × Char × Option Nat) :=
  let a := im.attrs i
  match a.var with
  | some o => some ('D', 'U', some (im.varDef o))
  | none =>
    match a.func with
    | some f => some ('F', 'C', (im.funcs[f]?).map (·.tokenDef))
    | none =>
      match a.enumr with
      | some e => some ('E', 'N', im.enumName e)
      | none => if a.varId != 0 then some ('V', 'V', none) else none

def refsOut (im : Imported) : String := Id.run do
  let r := ranks im.toks
  let mut out := "ok"
  let mut i := 0
  for t in im.toks do
    if !t.deleted then
      match defOf im i with
      | some (kd, ku, d) =>
        let k := if d == some i then kd else ku
        out := out ++ " " ++ String.singleton k ++ ":" ++ toHex t.str ++ ":" ++ intStr t.line ++ ":" ++ intStr t.col ++ ":" ++
          toString (im.attrs i).varId ++ ":" ++ rk r d
      | none => pure ()
    i := i + 1
  return out

def dumpOut (im : Imported) : String := Id.run do
  let r := ranks im.toks
  let n := (im.toks.toList.filter (fun t => !t.deleted)).length
  let mut out := "ok " ++ toString n ++ " |"
  let mut i := 0
  for t in im.toks do
    if !t.deleted then
      let a := im.attrs i
      out := out ++ " " ++ rk r (some i) ++ ":" ++ toHex t.str ++ ":" ++ toString t.file ++ ":" ++ intStr t.line ++ ":" ++ intStr t.col ++ ":" ++
        rk r t.link ++ ":" ++ rk r (im.store.parent i) ++ ":" ++ rk r (im.store.op1 i) ++ ":" ++ rk r (im.store.op2 i) ++ ":" ++
        toString a.varId ++ ":" ++ rk r (a.var.map im.varDef) ++ ":" ++ rk r (a.func.bind fun f => (im.funcs[f]?).map (·.tokenDef)) ++ ":" ++
        rk r (a.enumr.bind im.enumName)
    i := i + 1
  return out

def evStr : Ev → String
  | .varDecl a t _ => "v:" ++ toHex a ++ ":" ++ toString t
  | .funcDecl a t _ => "f:" ++ toHex a ++ ":" ++ toString t
  | .enumDecl a t _ => "e:" ++ toHex a ++ ":" ++ toString t
  | .scopeDecl a _ => "s:" ++ toHex a ++ ":-"
  | .ref a t => "r:" ++ toHex a ++ ":" ++ toString t
  | .replace f t => "x:" ++ toString f ++ ":" ++ toString t

def parseO (s : String) : Option (Option Nat) := if s == "-" then some none else s.toNat?.map some

/-- `inv` op: per token "parent,op1,op2,link,<first char as decimal>" -/
def parseInv : List String → Option (List (Option Nat × Option Nat × Option Nat × Option Nat × Char))
  | [] => some []
  | f :: r =>
    match f.splitOn ",", parseInv r with
    | [a, b, c, d, e], some rest =>
      match parseO a, parseO b, parseO c, parseO d, e.toNat? with
      | some a, some b, some c, some d, some e => some ((a, b, c, d, Char.ofNat e) :: rest)
      | _, _, _, _, _ => none
    | _, _ => none

def invRun (rows : List (Option Nat × Option Nat × Option Nat × Option Nat × Char)) : String :=
  let parent := rows.map (·.1)
  let op1 := rows.map (·.2.1)
  let op2 := rows.map (·.2.2.1)
  let link := rows.map (·.2.2.2.1)
  let ts : List Links.Tok := rows.map fun r => [r.2.2.2.2]
  let li := match Links.createLinks ts with
    | .ok L => L == link
    | .error _ => false
  "inv=" ++ boolStr (checkInv parent op1 op2) ++ " links=" ++ boolStr li

def step (line : String) : String :=
  match fields line with
  | "inv" :: _ :: rows =>
    match parseInv rows with
    | some r => invRun r
    | none => "bad-op"
  | ["split", h] =>
    match fromHex h with
    | some s => splitStr (splitString s)
    | none => "bad-op"
  | "data" :: n :: rest =>
    match n.toNat?, dataRun {} rest with
    | some n, some s => dataOut n s
    | _, _ => "bad-op"
  | ["loc", spec] =>
    match parseLocSpec spec with
    | some items =>
      match items with
      | (0, _) :: r => if wellNested 0 r then locRun items else "bad-op"
      | _ => "bad-op"
    | none => "bad-op"
  | ["refs", _, f, h] =>
    match fromHex f, fromHex h with
    | some f, some t =>
      match importDump f t with
      | .ok im => refsOut im
      | .error e => errStr e
    | _, _ => "bad-op"
  | ["dump", _, f, h] =>
    match fromHex f, fromHex h with
    | some f, some t =>
      match importDump f t with
      | .ok im => dumpOut im
      | .error e => errStr e
    | _, _ => "bad-op"
  | ["events", _, f, h] =>      -- model-only: the setter calls and the declaration-map events of the import, with the theorem hypotheses
    match fromHex f, fromHex h with
    | some f, some t =>
      match importDump f t with
      | .ok im =>
        let evs := im.events
        let nref := (evs.filter fun e => match e with | .ref _ _ => true | _ => false).length
        -- uses that precede the declaration of their address
        let early := (evs.zipIdx.filter fun (e, i) => match e with
          | .ref a _ => (declPairs (evs.take i)).all (fun kv => kv.1 != a) && (declPairs evs).any (fun kv => kv.1 == a)
          | _ => false).length
        "ok ops=" ++ toString im.ops.length ++ " via=" ++ boolStr (im.ops.all AstStore.Op.viaOperands) ++
          " u=" ++ boolStr (decide (addrsUnique evs)) ++ " f=" ++ boolStr (decide (toksFresh evs)) ++ " o=" ++ boolStr (decide (objsFresh evs)) ++
          " r=" ++ boolStr (evs.all (fun e => !isReplace e)) ++ " events=" ++ toString evs.length ++ " refs=" ++ toString nref ++
          " early=" ++ toString early
      | .error e => errStr e
    | _, _ => "bad-op"
  | ["cover", h] =>               -- model-only: does the line belong to the class `split_join` speaks about
    match fromHex h with
    | some s => boolStr (lineCovered s)
    | none => "bad-op"
  | _ => "bad-op"

end Driver.C35

def main : IO Unit := Driver.mainLoop Driver.C35.step

#!/usr/bin/env python3
"""usage: seed_keep.py <ID> <name> "<detected: how>"  — copy a confirmed seeded change from /tmp/seed/<ID>/OUT into /verif/seeded/<name>/"""
import json, os, shutil, sys
i, name, det = sys.argv[1], sys.argv[2], sys.argv[3]
src = "/tmp/seed/%s/OUT" % i
dst = "/verif/seeded/%s" % name
os.makedirs(dst, exist_ok=True)
shutil.copy(os.path.join(src, "patch.diff"), dst)
shutil.copy(os.path.join(src, "demo.sh"), dst)
if os.path.isdir(os.path.join(src, "demo")):
    shutil.copytree(os.path.join(src, "demo"), os.path.join(dst, "demo"), dirs_exist_ok=True)
m = json.load(open(os.path.join(src, "meta.json")))
m["confirmed_by_coordinator"] = ("demo.sh run on the unchanged reference build (exit 0) and on the author's build of the change (exit 1); "
                                 "the author built the change and ran the 112 ctest entries (TestCppcheck re-run alone where the known parallel race hit)")
m["evaluation"] = det
m["how_to_apply"] = "git -C /repo apply /verif/seeded/%s/patch.diff ; ./check.py %s ; git -C /repo checkout -- ." % (name, i)
json.dump(m, open(os.path.join(dst, "meta.json"), "w"), indent=1)
print("kept", dst)

#!/bin/bash
# usage: seed_eval.sh <PROPERTY_ID> <patch.diff> [tier]
# Evaluates a seeded change against our checks in a scratch worktree (/tmp/seed/eval) with its own object directory,
# so that /repo and the shared build are not disturbed.  Prints the tail of the check output and the exit code.
set -u
ID=$1; PATCH=$2; TIER=${3:-quick}
EV=/tmp/seed/eval
# one evaluation at a time: they share the scratch worktree and its object directory
exec 9>/tmp/seed/eval.lock; flock 9
HEAD=$(git -C /repo rev-parse HEAD)
if [ ! -d $EV ]; then git -C /repo worktree add -q --detach $EV $HEAD || exit 2; fi
git -C $EV checkout -q --detach $HEAD && git -C $EV checkout -q -- . && git -C $EV clean -fdq -e build
if [ "$PATCH" != "none" ]; then git -C $EV apply "$PATCH" || { echo "PATCH DOES NOT APPLY"; exit 3; }; fi
cd /verif && VERIF_REPO=$EV VERIF_BUILD_TAG=seed ./check.py $ID --tier $TIER > /tmp/seed/eval-$ID.log 2>&1
RC=$?
grep -E "^VIOLATION|^KNOWN-FINDING|undischarged|tier=" /tmp/seed/eval-$ID.log | cut -c1-400 | head -20
echo "exit=$RC"
git -C $EV checkout -q -- .
exit $RC

#!/usr/bin/env python3
"""Prints the generated tables of DESIGN.md section 9 (fix commits, remaining known findings, seeded changes) as markdown.
usage: tools/design_tables.py > /tmp/tables.md   (paste between the GENERATED markers of DESIGN.md with --write)"""
import glob, json, os, re, subprocess, sys
HERE = os.path.dirname(os.path.dirname(os.path.abspath(__file__)))
BASE = "e33b503"

def entries():
    out = []
    for f in [os.path.join(HERE, "known_findings.json")] + sorted(glob.glob(os.path.join(HERE, "known_findings.d", "*.json"))):
        d = json.load(open(f))
        es = d if isinstance(d, list) else d.get("findings", d.get("entries", []))
        out += es
    return out

def short(s, n=170):
    s = re.sub(r"\s+", " ", s or "").replace("|", "\\|")
    return s if len(s) <= n else s[:n - 1].rstrip() + "…"

def main():
    es = entries()
    log = subprocess.run(["git", "-C", "/repo", "log", "--reverse", "--format=%h\t%s", BASE + "..HEAD"], stdout=subprocess.PIPE, text=True).stdout
    commits = [l.split("\t", 1) for l in log.splitlines() if l.strip()]
    by_commit = {}
    for e in es:
        if e.get("kind") == "fixed":
            for c in re.findall(r"\b[0-9a-f]{7,40}\b", json.dumps(e)):
                by_commit.setdefault(c[:7], set()).add(e["property"])
    L = []
    L.append("#### Commits in /repo after the pinned snapshot (`git log %s..HEAD`, oldest first)\n" % BASE)
    L.append("| commit | kind | properties whose check found / follows it | subject |")
    L.append("|---|---|---|---|")
    nfix = nhook = 0
    for h, s in commits:
        kind = "fix" if s.startswith("fix:") else "hook"
        nfix += kind == "fix"; nhook += kind == "hook"
        props = ", ".join(sorted(by_commit.get(h[:7], []))) or "—"
        L.append("| %s | %s | %s | %s |" % (h, kind, props, short(re.sub(r"^fix: ", "", s), 200)))
    L.append("\n%d `fix:` commits, %d hook commits.\n" % (nfix, nhook))
    L.append("#### Known findings that remain (`kind: finding`; printed as `KNOWN-FINDING` while the witness reproduces)\n")
    L.append("| property | key | what fails |")
    L.append("|---|---|---|")
    for e in sorted([e for e in es if e.get("kind") == "finding"], key=lambda e: (e["property"], str(e.get("key")))):
        L.append("| %s | `%s` | %s |" % (e["property"], short(str(e.get("key")), 70), short(e.get("what", ""), 260)))
    L.append("")
    L.append("#### Seeded changes (`seeded/<name>/`: patch.diff, demo, meta.json) and which check catches them\n")
    L.append("| seeded change | property | result of `./check.py <id>` with the change applied |")
    L.append("|---|---|---|")
    for d in sorted(glob.glob(os.path.join(HERE, "seeded", "*"))):
        mp = os.path.join(d, "meta.json")
        if not os.path.exists(mp):
            continue
        m = json.load(open(mp))
        L.append("| `%s` | %s | %s |" % (os.path.basename(d), m.get("property"), short(m.get("evaluation", ""), 420)))
    L.append("")
    txt = "\n".join(L)
    if "--write" in sys.argv:
        p = os.path.join(HERE, "DESIGN.md")
        s = open(p).read()
        a, b = "<!-- GENERATED-TABLES-BEGIN -->", "<!-- GENERATED-TABLES-END -->"
        assert a in s and b in s
        s = s[:s.index(a) + len(a)] + "\n" + txt + "\n" + s[s.index(b):]
        open(p, "w").write(s)
        print("DESIGN.md tables rewritten: %d commits, %d findings" % (len(commits), sum(1 for e in es if e.get("kind") == "finding")))
    else:
        print(txt)

if __name__ == "__main__":
    main()

#!/bin/bash
# usage: seed_queue.sh ID...   evaluates /tmp/seed/ID/OUT/patch.diff one after the other (they share /tmp/seed/eval)
for i in "$@"; do
  /verif/tools/seed_eval.sh $i /tmp/seed/$i/OUT/patch.diff quick > /tmp/seed/evalout-$i.txt 2>&1
done
echo QUEUE-DONE >> /tmp/seed/evalout-queue.txt

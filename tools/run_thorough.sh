#!/bin/bash
# usage: run_thorough.sh <lane> ids...  — thorough tier of the given checks one after the other; summary to /tmp/thorough-<lane>.txt
cd /verif
LANE=$1; shift
: > /tmp/thorough-$LANE.txt
for p in "$@"; do
  s=$(date +%s)
  VERIF_SEED=1 ./check.py $p --tier thorough > /tmp/thorough-$p.log 2>&1; rc=$?
  echo "$p rc=$rc viol=$(grep -c '^VIOLATION' /tmp/thorough-$p.log) secs=$(( $(date +%s) - s )) $(tail -1 /tmp/thorough-$p.log | cut -c1-100)" >> /tmp/thorough-$LANE.txt
done
echo DONE >> /tmp/thorough-$LANE.txt

#!/bin/bash
# run every finished check once on the current tree; summary to /tmp/all-summary.txt
cd /verif
: > /tmp/all-summary.txt
for p in "$@"; do
  ./check.py $p > /tmp/all-$p.log 2>&1; rc=$?
  echo "$p rc=$rc viol=$(grep -c '^VIOLATION' /tmp/all-$p.log) $(tail -1 /tmp/all-$p.log | cut -c1-110)" >> /tmp/all-summary.txt
done
echo DONE >> /tmp/all-summary.txt

#!/bin/bash
# usage: run_seeds.sh "<seeds>" ids...  — quick tier of the given checks at each seed; summary lines to /tmp/seeds-summary.txt
cd /verif
SEEDS=$1; shift
: > /tmp/seeds-summary.txt
for sd in $SEEDS; do
  for p in "$@"; do
    VERIF_SEED=$sd ./check.py $p > /tmp/seeds-$p-$sd.log 2>&1; rc=$?
    echo "seed=$sd $p rc=$rc viol=$(grep -c '^VIOLATION' /tmp/seeds-$p-$sd.log)" >> /tmp/seeds-summary.txt
  done
done
echo DONE >> /tmp/seeds-summary.txt

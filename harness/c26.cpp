// C26 harness: the real report writers, one op per line (byte strings as hex, "-" = empty).
//
//   fix <s>                 ErrorMessage::fixInvalidChars (private; through deserialize/serialize) -> <hex>
//   toxml <s>               ErrorLogger::toxml                                    -> <hex>
//   ps <restricted> <s>     tinyxml2::XMLPrinter::PrintString through PushAttribute (0) / PushText (1) -> <hex>
//   xml <finding>           ErrorMessage::toXML                                   -> <hex>
//   rd <finding>            ErrorMessage(XMLElement*) applied to tinyxml2's parse of toXML -> re-read fields
//   str <brk> <verbose> <tf> <tl> <finding>   ErrorMessage::toString (brk: model-side flag, ignored here) -> <hex>
//   static <erase> <colors> <t>         substituteTemplateFormatStatic(t, erase)  -> <hex>   (colors: informational;
//                                       the caller sets CLICOLOR_FORCE in the environment of the process)
//   sarif <rawversion> <n> <finding>*   SarifReport::addFinding* ; serialize("")  -> <hex>
//   version                 CppCheck::version()                                   -> <hex>
//   hdr <xmlversion>        ErrorMessage::getXMLHeader("", v) / getXMLFooter(v)   -> <hex> <hex>
//
//   <finding> = id guideline classification sev cwe hash inc file0 short verbose symbols remark nloc {file origfile line col info}*
//   a finding whose file names are changed by Path::simplifyPath is answered with "premise" (the model takes mFileName as given)
#include "common.h"
#include "errorlogger.h"
#include "errortypes.h"
#include "sarifreport.h"
#include "cppcheck.h"
#include "settings.h"
#include "xml.h"
#include <cstdlib>

static void ser(std::string& o, const std::string& s) { o += std::to_string(s.size()); o += " "; o += s; }

// returns false on malformed op; premise=false when simplifyPath changed a file name
static bool mkFinding(const std::vector<std::string>& f, size_t& i, ErrorMessage& m, bool& premise) {
    if (i + 13 > f.size()) return false;
    const std::string id = unhex(f[i]), gl = unhex(f[i + 1]), cl = unhex(f[i + 2]);
    const int sev = std::stoi(f[i + 3]);
    const unsigned long cwe = std::stoul(f[i + 4]);
    const unsigned long long hash = std::stoull(f[i + 5]);
    const bool inc = f[i + 6] == "1";
    const std::string file0 = unhex(f[i + 7]), sh = unhex(f[i + 8]), vb = unhex(f[i + 9]), sym = unhex(f[i + 10]), rem = unhex(f[i + 11]);
    const int nloc = std::stoi(f[i + 12]);
    i += 13;
    // the three private strings are set through the public deserializer (length-prefixed, no interpretation)
    std::string data;
    ser(data, "x"); ser(data, "error"); ser(data, "0"); ser(data, "0"); ser(data, ""); ser(data, ""); ser(data, "0");
    ser(data, sh); ser(data, vb); ser(data, sym);
    data += "0 ";
    m.deserialize(data);
    m.id = id; m.guideline = gl; m.classification = cl;
    m.severity = static_cast<Severity>(sev);
    m.cwe.id = static_cast<unsigned short>(cwe);
    m.hash = static_cast<std::size_t>(hash);
    m.certainty = inc ? Certainty::inconclusive : Certainty::normal;
    m.file0 = file0; m.remark = rem;
    m.callStack.clear();
    for (int k = 0; k < nloc; ++k) {
        if (i + 5 > f.size()) return false;
        const std::string file = unhex(f[i]), orig = unhex(f[i + 1]), info = unhex(f[i + 4]);
        const int line = std::stoi(f[i + 2]);
        const unsigned col = static_cast<unsigned>(std::stoul(f[i + 3]));
        i += 5;
        ErrorMessage::FileLocation loc(orig, info, line, col);
        loc.setfile(file);
        if (loc.getfile(false) != file || loc.getOrigFile(false) != orig) premise = false;
        m.callStack.push_back(std::move(loc));
    }
    if (m.shortMessage() != sh || m.verboseMessage() != vb || m.symbolNames() != sym) premise = false;
    return true;
}

// ErrorMessage::fixInvalidChars is private: reach it through the public serializer (field 7 = fixInvalidChars(mShortMessage))
static std::string fixInvalidCharsViaSerialize(const std::string& s) {
    ErrorMessage m;
    std::string data;
    ser(data, "x"); ser(data, "error"); ser(data, "0"); ser(data, "0"); ser(data, ""); ser(data, ""); ser(data, "0");
    ser(data, s); ser(data, ""); ser(data, "");
    data += "0 ";
    m.deserialize(data);
    const std::string out = m.serialize();
    size_t pos = 0;
    std::string field;
    for (int k = 0; k < 8; ++k) {
        size_t sp = out.find(' ', pos);
        if (sp == std::string::npos) return "?";
        const size_t len = std::stoul(out.substr(pos, sp - pos));
        field = out.substr(sp + 1, len);
        pos = sp + 1 + len;
    }
    return field;
}

static std::string printString(bool restricted, const std::string& s) {
    tinyxml2::XMLPrinter p(nullptr, true, 0);
    p.OpenElement("a", true);
    if (restricted) p.PushText(s.c_str()); else p.PushAttribute("v", s.c_str());
    p.CloseElement(true);
    const std::string out = p.CStr();
    const std::string pre = restricted ? "<a>" : "<a v=\"";
    const std::string post = restricted ? "</a>" : "\"/>";
    if (out.size() < pre.size() + post.size() || out.compare(0, pre.size(), pre) != 0 || out.compare(out.size() - post.size(), post.size(), post) != 0)
        return "?" + out;
    return out.substr(pre.size(), out.size() - pre.size() - post.size());
}

int main() {
    std::string line;
    while (std::getline(std::cin, line)) {
        const std::vector<std::string> f = fields(line);
        std::string out = "bad-op";
        try {
            if (f.size() == 2 && f[0] == "fix") out = hex(fixInvalidCharsViaSerialize(unhex(f[1])));
            else if (f.size() == 2 && f[0] == "toxml") out = hex(ErrorLogger::toxml(unhex(f[1])));
            else if (f.size() == 3 && f[0] == "ps") out = hex(printString(f[1] == "1", unhex(f[2])));
            else if (f.size() >= 1 && f[0] == "xml") {
                ErrorMessage m; size_t i = 1; bool premise = true;
                if (mkFinding(f, i, m, premise) && i == f.size()) out = premise ? hex(m.toXML()) : "premise";
            } else if (f.size() >= 5 && f[0] == "str") {
                ErrorMessage m; size_t i = 5; bool premise = true;
                if (mkFinding(f, i, m, premise) && i == f.size())
                    out = premise ? hex(m.toString(f[2] == "1", unhex(f[3]), unhex(f[4]))) : "premise";
            } else if (f.size() == 4 && f[0] == "static") {
                std::string t = unhex(f[3]);
                substituteTemplateFormatStatic(t, f[1] == "1");
                out = hex(t);
            } else if (f.size() >= 3 && f[0] == "sarif") {
                const int n = std::stoi(f[2]);
                SarifReport rep; size_t i = 3; bool premise = true, ok = true;
                for (int k = 0; k < n && ok; ++k) {
                    ErrorMessage m;
                    ok = mkFinding(f, i, m, premise);
                    if (ok) rep.addFinding(std::move(m));
                }
                if (ok && i == f.size()) out = premise ? hex(rep.serialize("")) : "premise";
            } else if (f.size() == 1 && f[0] == "version") {
                out = hex(CppCheck::version());
            } else if (f.size() == 2 && f[0] == "hdr") {
                const int v = std::stoi(f[1]);
                out = hex(ErrorMessage::getXMLHeader("", v)) + " " + hex(ErrorMessage::getXMLFooter(v));
            }
        } catch (const InternalError& e) {
            out = "throw:InternalError";
        } catch (const std::exception& e) {
            out = std::string("throw:") + e.what();
        }
        std::cout << out << std::endl;
    }
    return 0;
}

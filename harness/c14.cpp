// C14 harness: the three mechanisms behind "the dump is self-consistent", run in-process on the real code.
//
//   ast <n> {<op> <x> <t>}*     n fresh Token objects; ops applied in order: o1 = x->astOperand1(t), o2 = x->astOperand2(t),
//                               pa = x->astParent(t), tp = x->astTop(t) (the cache setter); t = '-' is nullptr.
//                               output: the full pointer state after every op, preceded by the outcome (k = returned, t = InternalError)
//                                  "<state0> | k <state1> | t <state2> ..."   state = "parent,op1,op2,astTop();..." per token ('-' = null)
//   links {<hextok>}*           token strings added with TokenList::addtoken, then the real Tokenizer::createLinks();
//                               output "ok l0 l1 ..." (index of link target or '-'), or "throw <index of the reported token>"
//   links2 {<hextok>}*          same, but every token is given a stale pre-existing link first (createLinks must clear them)
//   lnk <n> {m <a> <b> | z <a> -}*   n fresh tokens; m = Token::createMutualLinks(a, b), z = a->link(nullptr);
//                               output: the link vector after every op, "l0,l1,... | l0,l1,..."
//   num <signed decimal>        std::to_string(static_cast<long long>(v))
//   toxml <hex>                 hex(ErrorLogger::toxml(s))
//   id <decimal>                id_string_i(n)
#include "common.h"
#include "token.h"
#include "tokenlist.h"
#include "tokenize.h"
#include "settings.h"
#include "errorlogger.h"
#include "errortypes.h"
#include "standards.h"
#include "utils.h"
#include <map>
#include <cstdint>

namespace {
    class Quiet : public ErrorLogger {
    public:
        void reportOut(const std::string&, Color) override {}
        void reportErr(const ErrorMessage&) override {}
        void reportMetric(const std::string&) override {}
    };
    class Tk : public Tokenizer {
    public:
        Tk(const Settings& s, ErrorLogger& l) : Tokenizer{TokenList{s, Standards::Language::CPP}, l} {}
        void links() { createLinks(); }
    };
}

static std::string ix(const std::map<const Token*, int>& m, const Token* t) {
    if (!t) return "-";
    auto it = m.find(t);
    return it == m.end() ? "?" : std::to_string(it->second);
}

static std::string state(const std::vector<Token*>& v, const std::map<const Token*, int>& m) {
    std::string s;
    for (Token* t : v) {
        // the mAstTop cache is private; its observable effect is the value astTop() returns (cache if set, else the root)
        s += ix(m, t->astParent()) + "," + ix(m, t->astOperand1()) + "," + ix(m, t->astOperand2()) + "," + ix(m, t->astTop()) + ";";
    }
    return s;
}

static std::string runAst(const std::vector<std::string>& f) {
    Settings settings;
    TokenList list{settings, Standards::Language::CPP};
    const int n = std::stoi(f[1]);
    std::vector<Token*> v;
    std::map<const Token*, int> m;
    for (int i = 0; i < n; ++i) {
        list.addtoken("t" + std::to_string(i), 1, i + 1, 0);
        v.push_back(list.back());
        m[list.back()] = i;
    }
    std::string out = state(v, m);
    for (size_t k = 2; k + 2 < f.size(); k += 3) {
        const std::string& op = f[k];
        const int x = std::stoi(f[k + 1]);
        Token* t = f[k + 2] == "-" ? nullptr : v.at(std::stoi(f[k + 2]));
        std::string oc = "k";
        try {
            if (op == "o1") v.at(x)->astOperand1(t);
            else if (op == "o2") v.at(x)->astOperand2(t);
            else if (op == "pa") v.at(x)->astParent(t);
            else if (op == "tp") v.at(x)->astTop(t);
            else return "bad-op";
        } catch (const InternalError& e) {
            oc = "t";
        }
        out += " | " + oc + " " + state(v, m);
    }
    return out;
}

static std::string runLinks(const std::vector<std::string>& f, bool stale) {
    Settings settings;
    Quiet logger;
    Tk tk(settings, logger);
    tk.list.appendFileIfNew("test.cpp");
    std::vector<Token*> v;
    std::map<const Token*, int> m;
    for (size_t i = 1; i < f.size(); ++i) {
        const std::string s = unhex(f[i]);
        if (s.empty()) return "bad-op";
        tk.list.addtoken(s, 1, static_cast<int>(i), 0);
        v.push_back(tk.list.back());
        m[tk.list.back()] = static_cast<int>(i) - 1;
    }
    if (stale && !v.empty())
        for (size_t i = 0; i < v.size(); ++i) v[i]->link(v[(i * 7 + 3) % v.size()]);
    try {
        tk.links();
    } catch (const InternalError& e) {
        return "throw " + ix(m, e.token);
    }
    std::string out = "ok";
    for (Token* t : v) out += " " + ix(m, t->link());
    return out;
}

static std::string runLnk(const std::vector<std::string>& f) {
    Settings settings;
    TokenList list{settings, Standards::Language::CPP};
    const int n = std::stoi(f[1]);
    std::vector<Token*> v;
    std::map<const Token*, int> m;
    for (int i = 0; i < n; ++i) {
        list.addtoken("t" + std::to_string(i), 1, i + 1, 0);
        v.push_back(list.back());
        m[list.back()] = i;
    }
    std::string out;
    for (size_t k = 2; k + 2 < f.size(); k += 3) {
        if (f[k] == "m") Token::createMutualLinks(v.at(std::stoi(f[k + 1])), v.at(std::stoi(f[k + 2])));
        else if (f[k] == "z") v.at(std::stoi(f[k + 1]))->link(nullptr);
        else return "bad-op";
        if (!out.empty()) out += " | ";
        for (size_t i = 0; i < v.size(); ++i) out += (i ? "," : "") + ix(m, v[i]->link());
    }
    return out.empty() ? "-" : out;
}

int main() {
    std::string line;
    while (std::getline(std::cin, line)) {
        std::vector<std::string> f = fields(line);
        std::string out = "bad-op";
        try {
            if (f.size() >= 2 && f[0] == "ast" && (f.size() - 2) % 3 == 0) out = runAst(f);
            else if (!f.empty() && f[0] == "links") out = runLinks(f, false);
            else if (!f.empty() && f[0] == "links2") out = runLinks(f, true);
            else if (f.size() >= 2 && f[0] == "lnk" && (f.size() - 2) % 3 == 0) out = runLnk(f);
            else if (f.size() == 2 && f[0] == "num") out = std::to_string(static_cast<long long>(std::stoll(f[1])));
            else if (f.size() == 2 && f[0] == "toxml") out = hex(ErrorLogger::toxml(unhex(f[1])));
            else if (f.size() == 2 && f[0] == "id") out = id_string_i(static_cast<std::uintptr_t>(std::stoull(f[1])));
        } catch (const std::exception& e) {
            out = std::string("exception ") + e.what();
        }
        std::cout << out << std::endl;
    }
    return 0;
}

// C07 harness: the real Tokenizer run in-process; prints the token list and the syntax tree(s) the real
// TokenList::createAst built (read back through astOperand1/astOperand2).
//
// op lines
//   full <c|cpp> <hexsource>
//       whole pipeline as test/helpers.h SimpleTokenizer drives it (createTokensFromBuffer + simplifyTokens1;
//       value flow disabled through DISABLE_VALUEFLOW=1, it runs after the AST exists).  Output
//         ok <tokens of the LAST function body> | <tree> ; <tree> ...
//       tokens: <hexstr>:<flags> with flags out of  N name, V varId != 0, S standard type, L number/literal,
//       K keyword, C isCast, T `<`/`>` linked as template bracket;  - if none.  One tree per token of that body that has operands and no parent, in
//       token order.  Tree = Polish prefix, every node `<str>/<m>` with m = 0 leaf, 1 operand1 only, 2 operand2
//       only, 3 both; operands follow in the order operand1, operand2.
//         err <InternalError id>:<message>      the tokenizer rejected the input
//   prep <hex of space separated tokens>
//       Tokenizer::createLinks + Tokenizer::prepareTernaryOpForAST on exactly these tokens; output
//         ok <token strings before the pass> ## <token strings after the pass>
//   ast <c|cpp> <hex of space separated tokens, names starting with v get varId>
//       combineOperators, simplifySpaceshipOperator, createLinks, prepareTernaryOpForAST, TokenList::createAst on exactly
//       these tokens (no other pass);
//       same output as `full` (all tokens), followed by ` # <hex of the space separated token strings before
//       prepareTernaryOpForAST>` (the lexer decides how `- -` / `--` etc. are split, so the model is fed these).
#include "common.h"
#include "token.h"
#include "tokenlist.h"
#include "tokenize.h"
#include "settings.h"
#include "errorlogger.h"
#include "errortypes.h"
#include "standards.h"
#include <cctype>
#include <cstdlib>

namespace {
    class Quiet : public ErrorLogger {
    public:
        std::string first;
        void reportOut(const std::string&, Color) override {}
        void reportErr(const ErrorMessage& msg) override { if (first.empty()) first = msg.id; }
        void reportMetric(const std::string&) override {}
    };

    class Tk : public Tokenizer {
    public:
        Tk(TokenList tl, ErrorLogger& l) : Tokenizer(std::move(tl), l) {}
        using Tokenizer::createLinks;
        using Tokenizer::createLinks2;
        using Tokenizer::prepareTernaryOpForAST;
        using Tokenizer::combineOperators;
        using Tokenizer::simplifySpaceshipOperator;
    };
}

static std::string flags(const Token* t) {
    std::string f;
    if (t->isName()) f += 'N';
    if (t->varId() != 0) f += 'V';
    if (t->isStandardType()) f += 'S';
    if (t->isLiteral()) f += 'L';
    if (t->isKeyword()) f += 'K';
    if (t->isCast()) f += 'C';
    if (t->link() && (t->str() == "<" || t->str() == ">")) f += 'T';
    return f.empty() ? "-" : f;
}

static void tree(const Token* t, std::string& out, int depth) {
    if (depth > 2000) { out += " DEEP"; return; }
    const int m = (t->astOperand1() ? 1 : 0) + (t->astOperand2() ? 2 : 0);
    if (!out.empty()) out += ' ';
    out += t->str() + "/" + std::to_string(m);
    if (t->astOperand1()) tree(t->astOperand1(), out, depth + 1);
    if (t->astOperand2()) tree(t->astOperand2(), out, depth + 1);
}

static std::string render(const Token* first, const Token* last) {
    std::string out = "ok";
    for (const Token* t = first; t && t != last; t = t->next())
        out += " " + hex(t->str()) + ":" + flags(t);
    out += " |";
    bool any = false;
    for (const Token* t = first; t && t != last; t = t->next()) {
        if (t->astParent() || (!t->astOperand1() && !t->astOperand2()))
            continue;
        if (any) out += " ;";
        std::string tr;
        tree(t, tr, 0);
        out += " " + tr;
        any = true;
    }
    return out;
}

static std::string clean(std::string s) {
    for (char& c : s) if (c == '\n' || c == '\r') c = ' ';
    return s;
}

int main() {
    setenv("DISABLE_VALUEFLOW", "1", 1);
    Settings settings;
    std::string line;
    while (std::getline(std::cin, line)) {
        std::vector<std::string> f = fields(line);
        std::string out;
        Quiet logger;
        try {
            if (f.size() == 3 && f[0] == "full" && (f[1] == "c" || f[1] == "cpp")) {
                const bool cpp = f[1] == "cpp";
                const std::string code = unhex(f[2]);
                Tk tokenizer{TokenList{settings, cpp ? Standards::Language::CPP : Standards::Language::C}, logger};
                tokenizer.list.appendFileIfNew(cpp ? "test.cpp" : "test.c");
                if (!tokenizer.list.createTokensFromBuffer(code.data(), code.size()))
                    out = "err createTokens";
                else if (!tokenizer.simplifyTokens1(""))
                    out = "err simplifyTokens1";
                else {
                    // last top-level `{ ... }`
                    const Token* open = nullptr;
                    for (const Token* t = tokenizer.tokens(); t; t = t->next()) {
                        if (t->str() == "{" && t->link()) { open = t; t = t->link(); }
                    }
                    if (!open)
                        out = "err nobody";
                    else
                        out = render(open->next(), open->link());
                }
            } else if (f.size() == 2 && f[0] == "prep") {
                const std::string code = unhex(f[1]);
                Tk tokenizer{TokenList{settings, Standards::Language::C}, logger};
                tokenizer.list.appendFileIfNew("test.c");
                if (!tokenizer.list.createTokensFromBuffer(code.data(), code.size()))
                    out = "err createTokens";
                else {
                    tokenizer.createLinks();
                    out = "ok";
                    for (const Token* t = tokenizer.tokens(); t; t = t->next())
                        out += " " + t->str();
                    out += " ##";
                    tokenizer.prepareTernaryOpForAST();
                    for (const Token* t = tokenizer.tokens(); t; t = t->next())
                        out += " " + t->str();
                }
            } else if (f.size() == 3 && f[0] == "ast" && (f[1] == "c" || f[1] == "cpp")) {
                const bool cpp = f[1] == "cpp";
                const std::string code = unhex(f[2]);
                Tk tokenizer{TokenList{settings, cpp ? Standards::Language::CPP : Standards::Language::C}, logger};
                tokenizer.list.appendFileIfNew(cpp ? "test.cpp" : "test.c");
                if (!tokenizer.list.createTokensFromBuffer(code.data(), code.size()))
                    out = "err createTokens";
                else {
                    tokenizer.combineOperators();
                    tokenizer.simplifySpaceshipOperator();
                    tokenizer.createLinks();
                    nonneg int id = 0;
                    for (Token* t = tokenizer.list.front(); t; t = t->next())
                        if (t->isName() && t->str()[0] == 'v' && t->str().size() > 1 && std::isdigit(static_cast<unsigned char>(t->str()[1])))
                            t->varId(++id);
                    tokenizer.list.front()->assignIndexes();
                    std::string pre;
                    for (const Token* t = tokenizer.tokens(); t; t = t->next())
                        pre += (pre.empty() ? "" : " ") + t->str();
                    tokenizer.prepareTernaryOpForAST();
                    tokenizer.list.front()->assignIndexes();
                    try {
                        tokenizer.list.createAst();
                        out = render(tokenizer.tokens(), nullptr);
                    } catch (const InternalError& e) {
                        out = "err " + e.id + ":" + clean(e.errorMessage);
                    }
                    out += " # " + hex(pre);
                }
            } else {
                out = "bad-op";
            }
        } catch (const InternalError& e) {
            out = "err " + e.id + ":" + clean(e.errorMessage);
        } catch (const std::exception& e) {
            out = std::string("err exception:") + clean(e.what());
        }
        std::cout << out << std::endl;
    }
    return 0;
}

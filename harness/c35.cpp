// C35 harness: the clang-AST importer of the working tree, in-process.
//
// lib/clangimport.cpp keeps its line splitter, the address-keyed declaration map (`clangimport::Data`) and the AST node class
// in file-local scope.  To reach them without a hook the harness compiles a second, renamed copy of the CURRENT source text
// (`#include "clangimport.cpp"` with `clangimport` renamed to `clangimport_verif`, so it does not clash with the object of the
// working tree the harness links against).  Whole-dump ops (`dump`, `refs`) call the REAL `clangimport::parseClangAstDump`
// of the linked object; the renamed copy serves only the unit ops (`split`, `data`, `loc`).
//
//   split <hexline>                   splitString(line)                          -> "<n> <hexfield>*"
//   data <n> {<ev> <hexaddr> <tok>}*  n fresh tokens; events on a real Data object:
//                                        v = varDecl(addr, tok, new Variable(tok..)), f = funcDecl, e = enumDecl, s = scopeDecl(addr),
//                                        r = ref(addr, tok), x = replaceVarDecl(variable declared at token <tok>, fresh copy)
//                                     -> per token "varId,variable()->nameToken(),function()->tokenDef,enumerator()->name;" + " | h<hasDecl per distinct addr>"
//   loc <nodes>                       node tree "depth:hexext,depth:hexext,..." (preorder; ext = text after the node type);
//                                     AstNode::setLocations(tokenList, 0, 1, 1) -> "ok file:line:col;..." per node | "throw ast" | "throw conv"
//   refs <lang> <hexfile> <hexdump>           parseClangAstDump, then every linked name token in list order:
//                                        "ok K:hexstr:line:col:varId:defIndex ..."   K = D/U (variable decl token / use), F/C (function), E/N (enumerator)
//                                     or "throw <class>"
//   dump <lang> <hexfile> <hexdump>           parseClangAstDump, then the whole token list:
//                                        "ok <n> | idx:hexstr:file:line:col:link:parent:op1:op2:varId:varDef:funDef:enumDef ..." ('-' = null)
#include "common.h"
#include "clangimport.h"
#include "errortypes.h"
#include "errorlogger.h"
#include "mathlib.h"
#include "settings.h"
#include "standards.h"
#include "symboldatabase.h"
#include "token.h"
#include "tokenize.h"
#include "tokenlist.h"
#include "utils.h"
#include "vfvalue.h"
#include "path.h"

#include <algorithm>
#include <cctype>
#include <cstring>
#include <iostream>
#include <iterator>
#include <list>
#include <map>
#include <memory>
#include <set>
#include <sstream>
#include <stack>
#include <string>
#include <utility>
#include <vector>
#include <numeric>
#include <stdexcept>

namespace clangimport_verif { void parseClangAstDump(Tokenizer &tokenizer, std::istream &f); }
#define clangimport clangimport_verif
#define private public
#ifndef C35_SOURCE
#define C35_SOURCE "clangimport.cpp"      // found through -I<repo>/lib: the working tree's file
#endif
#include C35_SOURCE
#undef private
#undef clangimport

namespace {
    class Quiet : public ErrorLogger {
    public:
        void reportOut(const std::string&, Color) override {}
        void reportErr(const ErrorMessage&) override {}
        void reportMetric(const std::string&) override {}
    };
}

static std::string ix(const std::map<const Token*, int>& m, const Token* t) {
    if (!t) return "-";
    auto it = m.find(t);
    return it == m.end() ? "?" : std::to_string(it->second);
}

static std::string runSplit(const std::string& line) {
    const std::vector<std::string> v = splitString(line);
    std::string out = std::to_string(v.size());
    for (const std::string& s : v) out += " " + hex(s);
    return out;
}

static std::string runData(const std::vector<std::string>& f) {
    Settings settings;
    settings.clang = true;
    Quiet logger;
    Tokenizer tokenizer(TokenList{settings, Standards::Language::CPP}, logger);
    tokenizer.createSymbolDatabase();
    auto *symbolDatabase = const_cast<SymbolDatabase *>(tokenizer.getSymbolDatabase());
    symbolDatabase->scopeList.emplace_back(*symbolDatabase, nullptr, nullptr);
    symbolDatabase->scopeList.back().type = ScopeType::eGlobal;
    Scope *scope = &symbolDatabase->scopeList.back();
    clangimport_verif::Data data(settings, *symbolDatabase);
    const int n = std::stoi(f[1]);
    std::vector<Token*> v;
    std::map<const Token*, int> m;
    for (int i = 0; i < n; ++i) {
        tokenizer.list.addtoken("t" + std::to_string(i), 1, i + 1, 0);
        v.push_back(tokenizer.list.back());
        m[tokenizer.list.back()] = i;
    }
    std::list<Variable> vars;
    std::list<Function> funcs;
    std::list<Enumerator> enums;
    std::map<int, Variable*> varAt;   // token index -> variable declared there (current object)
    std::vector<std::string> addrs;
    for (size_t k = 2; k + 2 < f.size(); k += 3) {
        const std::string& ev = f[k];
        const std::string addr = unhex(f[k + 1]);
        const int t = std::stoi(f[k + 2]);
        if (std::find(addrs.begin(), addrs.end(), addr) == addrs.end()) addrs.push_back(addr);
        if (ev == "v") {
            vars.emplace_back(v.at(t), "int", nullptr, nullptr, 0, AccessControl::Public, nullptr, scope);
            varAt[t] = &vars.back();
            data.varDecl(addr, v.at(t), &vars.back());
        } else if (ev == "f") {
            funcs.emplace_back(v.at(t), "void ()");
            data.funcDecl(addr, v.at(t), &funcs.back());
        } else if (ev == "e") {
            enums.emplace_back(scope);
            enums.back().name = v.at(t);
            data.enumDecl(addr, v.at(t), &enums.back());
        } else if (ev == "s") {
            data.scopeDecl(addr, scope);
        } else if (ev == "r") {
            data.ref(addr, v.at(t));
        } else if (ev == "x") {
            auto it = varAt.find(t);
            if (it != varAt.end()) {
                vars.emplace_back(*it->second, scope);
                data.replaceVarDecl(it->second, &vars.back());
                it->second = &vars.back();
            }
        } else
            return "bad-op";
    }
    std::string out;
    for (Token* t : v) {
        out += std::to_string(t->varId()) + "," + ix(m, t->variable() ? t->variable()->nameToken() : nullptr) + "," +
               ix(m, t->function() ? t->function()->tokenDef : nullptr) + "," + ix(m, t->enumerator() ? t->enumerator()->name : nullptr) + ";";
    }
    out += " | h";
    for (const std::string& a : addrs) out += data.hasDecl(a) ? "1" : "0";
    // getVariableList(): index = declaration id, entry = name token of the variable registered in the map
    out += " | l";
    for (const Variable* var : data.getVariableList()) out += " " + ix(m, var ? var->nameToken() : nullptr);
    return out;
}

static std::string runLoc(const std::string& spec) {
    Settings settings;
    settings.clang = true;
    Quiet logger;
    Tokenizer tokenizer(TokenList{settings, Standards::Language::CPP}, logger);
    tokenizer.createSymbolDatabase();
    auto *symbolDatabase = const_cast<SymbolDatabase *>(tokenizer.getSymbolDatabase());
    clangimport_verif::Data data(settings, *symbolDatabase);
    std::vector<clangimport_verif::AstNodePtr> all, path;
    std::istringstream is(spec);
    std::string item;
    while (std::getline(is, item, ',')) {
        const auto c = item.find(':');
        if (c == std::string::npos) return "bad-op";
        const size_t depth = std::stoul(item.substr(0, c));
        auto node = std::make_shared<clangimport_verif::AstNode>("N", unhex(item.substr(c + 1)), &data);
        if (depth > path.size() || (depth == 0 && !path.empty())) return "bad-op";
        if (depth > 0) path[depth - 1]->children.push_back(node);
        path.resize(depth);
        path.push_back(node);
        all.push_back(node);
    }
    if (all.empty()) return "bad-op";
    try {
        all[0]->setLocations(tokenizer.list, 0, 1, 1);
    } catch (const InternalError& e) {
        return e.type == InternalError::AST ? "throw ast" : "throw internal";
    } catch (const std::runtime_error&) {
        return "throw conv";
    }
    std::string out = "ok";
    for (const auto& n : all) {
        const std::vector<std::string>& files = tokenizer.list.getFiles();
        const std::string fn = (n->mFile >= 0 && static_cast<size_t>(n->mFile) < files.size()) ? files[n->mFile] : std::string();
        out += " " + hex(fn) + ":" + std::to_string(n->mLine) + ":" + std::to_string(n->mCol);
    }
    return out;
}

struct Imported {
    Settings settings;
    Quiet logger;
    std::unique_ptr<Tokenizer> tokenizer;
    std::string outcome;   // "ok" or "throw ..."
};

static std::string errClass(const std::string& msg) {
    if (msg.find("Token::link() is not set properly") != std::string::npos) return "link-not-set";
    if (msg.find("invalid AST location") != std::string::npos) return "invalid-location";
    if (msg.find("getChild") != std::string::npos) return "getChild";
    if (msg.find("CXXForRangeStmt") != std::string::npos) return "forrange";
    if (msg.find("AST cyclic dependency") != std::string::npos) return "ast-cycle";
    return "other:" + hex(msg.substr(0, 60));
}

static void import(Imported& im, const std::string& lang, const std::string& file0, const std::string& text) {
    im.settings.clang = true;
    TokenList tokenlist{im.settings, lang == "c" ? Standards::Language::C : Standards::Language::CPP};
    tokenlist.appendFileIfNew(file0);
    im.tokenizer.reset(new Tokenizer(std::move(tokenlist), im.logger));
    std::istringstream ast(text);
    try {
#ifdef C35_USE_COPY
        clangimport_verif::parseClangAstDump(*im.tokenizer, ast);   // docs/C35.md "mutations": a scratch copy of the source
#else
        clangimport::parseClangAstDump(*im.tokenizer, ast);
#endif
        im.outcome = "ok";
    } catch (const InternalError& e) {
        im.outcome = "throw " + errClass(e.errorMessage);
    } catch (const std::runtime_error& e) {
        const std::string w = e.what();
        im.outcome = w.compare(0, 12, "converting '") == 0 ? std::string("throw conv") : "exception " + hex(w.substr(0, 60));
    } catch (const std::exception& e) {
        im.outcome = std::string("exception ") + hex(std::string(e.what()).substr(0, 60));
    }
}

static std::string runRefs(const std::string& lang, const std::string& file0, const std::string& text) {
    Imported im;
    import(im, lang, file0, text);
    if (im.outcome != "ok") return im.outcome;
    std::map<const Token*, int> m;
    int i = 0;
    for (const Token* t = im.tokenizer->tokens(); t; t = t->next()) m[t] = i++;
    std::string out = "ok";
    for (const Token* t = im.tokenizer->tokens(); t; t = t->next()) {
        const Token* def = nullptr;
        char k = 0;
        if (t->variable()) { def = t->variable()->nameToken(); k = def == t ? 'D' : 'U'; }
        else if (t->function()) { def = t->function()->tokenDef; k = def == t ? 'F' : 'C'; }
        else if (t->enumerator()) { def = t->enumerator()->name; k = def == t ? 'E' : 'N'; }
        else if (t->varId() != 0) { k = 'V'; }
        if (!k) continue;
        out += std::string(" ") + k + ":" + hex(t->str()) + ":" + std::to_string(t->linenr()) + ":" + std::to_string(t->column()) + ":" +
               std::to_string(t->varId()) + ":" + ix(m, def);
    }
    return out;
}

static std::string runDump(const std::string& lang, const std::string& file0, const std::string& text) {
    Imported im;
    import(im, lang, file0, text);
    if (im.outcome != "ok") return im.outcome;
    std::map<const Token*, int> m;
    int n = 0;
    for (const Token* t = im.tokenizer->tokens(); t; t = t->next()) m[t] = n++;
    std::string out = "ok " + std::to_string(n) + " |";
    for (const Token* t = im.tokenizer->tokens(); t; t = t->next()) {
        out += " " + std::to_string(m[t]) + ":" + hex(t->str()) + ":" + std::to_string(t->fileIndex()) + ":" + std::to_string(t->linenr()) + ":" +
               std::to_string(t->column()) + ":" + ix(m, t->link()) + ":" + ix(m, t->astParent()) + ":" + ix(m, t->astOperand1()) + ":" +
               ix(m, t->astOperand2()) + ":" + std::to_string(t->varId()) + ":" +
               ix(m, t->variable() ? t->variable()->nameToken() : nullptr) + ":" +
               ix(m, t->function() ? t->function()->tokenDef : nullptr) + ":" +
               ix(m, t->enumerator() ? t->enumerator()->name : nullptr);
    }
    return out;
}

int main() {
    std::string line;
    while (std::getline(std::cin, line)) {
        std::vector<std::string> f = fields(line);
        std::string out = "bad-op";
        try {
            if (f.size() == 2 && f[0] == "split") out = runSplit(unhex(f[1]));
            else if (f.size() >= 2 && f[0] == "data" && (f.size() - 2) % 3 == 0) out = runData(f);
            else if (f.size() == 2 && f[0] == "loc") out = runLoc(f[1]);
            else if (f.size() >= 4 && f[0] == "refs") out = runRefs(f[1], unhex(f[2]), unhex(f[3]));
            else if (f.size() >= 4 && f[0] == "dump") out = runDump(f[1], unhex(f[2]), unhex(f[3]));
        } catch (const std::exception& e) {
            out = std::string("exception ") + e.what();
        }
        std::cout << out << std::endl;
    }
    return 0;
}

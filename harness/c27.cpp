// C27 harness: the value selector behind Token::getValueLE/GE and several checks, ValueFlow::findValue, in-process.
// one op per line:   F <mask> <digits>      mask bit 1 = warning enabled, bit 9 = --inconclusive (as Opts.ofMask)
//                    every digit d of <digits> is one value of the list: bit0 = inconclusive, bit1 = has a condition, bit2 = pred(v)
// output: index of the returned value in the list, or "-" for nullptr
#include "common.h"
#include "settings.h"
#include "valueflow.h"
#include "vfvalue.h"
#include "token.h"
#include <list>

int main() {
    std::string line;
    static const char dummy[4] = {0};
    while (std::getline(std::cin, line)) {
        const std::vector<std::string> f = fields(line);
        if (f.size() != 3 || f[0] != "F") { std::cout << "bad" << std::endl; continue; }
        const unsigned long mask = std::stoul(f[1]);
        Settings settings;
        if (mask & (1UL << 1)) settings.severity.enable(Severity::warning);
        if (mask & (1UL << 9)) settings.certainty.enable(Certainty::inconclusive);
        std::list<ValueFlow::Value> values;
        const std::string digits = f[2] == "-" ? std::string() : f[2];
        for (char c : digits) {
            const int d = c - '0';
            ValueFlow::Value v((d & 4) ? 1 : 0);
            v.valueKind = ValueFlow::Value::ValueKind::Possible;
            if (d & 1) v.setInconclusive();
            if (d & 2) v.condition = reinterpret_cast<const Token*>(dummy);    // only tested for null-ness by findValue
            values.push_back(v);
        }
        const ValueFlow::Value* r = ValueFlow::findValue(values, settings, [](const ValueFlow::Value& v) { return v.intvalue == 1; });
        if (!r) { std::cout << "-" << std::endl; continue; }
        int i = 0, found = -1;
        for (const ValueFlow::Value& v : values) { if (&v == r) found = i; ++i; }
        std::cout << found << std::endl;
    }
    return 0;
}

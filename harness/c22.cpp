// C22 harness: the real summary writers/readers of lib/ctu.cpp, the four checks' loadFileInfoFromXml/toString,
// ErrorLogger::toxml, tinyxml2, AnalyzerInformation (cache file), CTU::FileInfo::getErrorPath and the two
// unused-function algorithms, driven in-process.  One op per line, one result line per op (see lean/Driver/C22.lean
// for the value encoding).  argv[1] = scratch directory for the ops that go through real files.
#include "common.h"
#include "analyzerinfo.h"
#include "check.h"
#include "checks.h"
#include "checkunusedfunctions.h"
#include "ctu.h"
#include "errorlogger.h"
#include "errortypes.h"
#include "filesettings.h"
#include "path.h"
#include "settings.h"
#include "standards.h"
#include "tokenize.h"
#include "tokenlist.h"
#include "vfvalue.h"
#include "xml.h"

#include <algorithm>
#include <cstring>
#include <fstream>
#include <functional>
#include <list>
#include <map>
#include <unistd.h>
#include <dirent.h>
#include <sys/stat.h>

using tinyxml2::XMLDocument;
using tinyxml2::XMLElement;
using tinyxml2::XMLAttribute;

namespace {

struct Cur {
    const std::vector<std::string>& f;
    size_t i;
    bool bad = false;
    std::string str() { if (i >= f.size()) { bad = true; return ""; } return unhex(f[i++]); }
    long long num() { if (i >= f.size()) { bad = true; return 0; } try { return std::stoll(f[i++]); } catch (...) { bad = true; return 0; } }
    unsigned long long unum() { if (i >= f.size()) { bad = true; return 0; } try { return std::stoull(f[i++]); } catch (...) { bad = true; return 0; } }
    bool lit(const char* k) { if (i >= f.size() || f[i] != k) { bad = true; return false; } ++i; return true; }
    bool done() const { return !bad && i == f.size(); }
};

CTU::FileInfo::Location readLoc(Cur& c) {
    std::string file = c.str();
    const int line = static_cast<int>(c.num());
    const int col = static_cast<int>(c.num());
    return CTU::FileInfo::Location(std::move(file), line, col);
}

bool g_pathFilesSimplified = true;

CTU::FileInfo::FunctionCall readFC(Cur& c) {
    CTU::FileInfo::FunctionCall fc;
    c.lit("FC");
    fc.callId = c.str();
    fc.callFunctionName = c.str();
    fc.callArgNr = static_cast<int>(c.num());
    fc.location = readLoc(c);
    fc.callArgumentExpression = c.str();
    fc.callValueType = static_cast<ValueFlow::Value::ValueType>(static_cast<std::uint8_t>(c.num()));
    fc.callArgValue.value = c.num();
    fc.callArgValue.unknownFunctionReturn = static_cast<ValueFlow::Value::UnknownFunctionReturn>(static_cast<std::uint8_t>(c.num()));
    fc.warning = c.num() == 1;
    const long long n = c.num();
    for (long long k = 0; k < n && !c.bad; ++k) {
        const std::string file = c.str();
        std::string info = c.str();
        const int line = static_cast<int>(c.num());
        const unsigned int col = static_cast<unsigned int>(c.unum());
        if (Path::simplifyPath(file) != file)
            g_pathFilesSimplified = false;
        fc.callValuePath.emplace_back(file, std::move(info), line, col);
    }
    return fc;
}

CTU::FileInfo::NestedCall readNC(Cur& c) {
    c.lit("NC");
    const std::string callId = c.str();
    const std::string fname = c.str();
    const int argnr = static_cast<int>(c.num());
    const CTU::FileInfo::Location loc = readLoc(c);
    std::string myId = c.str();
    const int myArgNr = static_cast<int>(c.num());
    return CTU::FileInfo::NestedCall(std::move(myId), myArgNr, callId, argnr, fname, loc);
}

CTU::FileInfo::UnsafeUsage readUU(Cur& c) {
    c.lit("UU");
    std::string myId = c.str();
    const int myArgNr = static_cast<int>(c.num());
    std::string name = c.str();
    CTU::FileInfo::Location loc = readLoc(c);
    const long long value = c.num();
    return CTU::FileInfo::UnsafeUsage(std::move(myId), myArgNr, std::move(name), std::move(loc), value);
}

void readFI(Cur& c, CTU::FileInfo& fi) {
    long long n = c.num();
    for (long long k = 0; k < n && !c.bad; ++k)
        fi.functionCalls.push_back(readFC(c));
    n = c.num();
    for (long long k = 0; k < n && !c.bad; ++k)
        fi.nestedCalls.push_back(readNC(c));
}

std::string locS(const CTU::FileInfo::Location& l) {
    return hex(l.fileName) + " " + std::to_string(l.lineNumber) + " " + std::to_string(l.column);
}

std::string fcS(const CTU::FileInfo::FunctionCall& c) {
    std::string s = "FC " + hex(c.callId) + " " + hex(c.callFunctionName) + " " + std::to_string(c.callArgNr) + " " + locS(c.location) + " " +
                    hex(c.callArgumentExpression) + " " + std::to_string(static_cast<int>(c.callValueType)) + " " + std::to_string(c.callArgValue.value) + " " +
                    std::to_string(static_cast<int>(c.callArgValue.unknownFunctionReturn)) + " " + (c.warning ? "1" : "0") + " " + std::to_string(c.callValuePath.size());
    for (const ErrorMessage::FileLocation& p : c.callValuePath)
        s += " " + hex(p.getOrigFile(false)) + " " + hex(p.getinfo()) + " " + std::to_string(p.line) + " " + std::to_string(p.column);
    return s;
}

std::string ncS(const CTU::FileInfo::NestedCall& c) {
    return "NC " + hex(c.callId) + " " + hex(c.callFunctionName) + " " + std::to_string(c.callArgNr) + " " + locS(c.location) + " " + hex(c.myId) + " " + std::to_string(c.myArgNr);
}

std::string uuS(const CTU::FileInfo::UnsafeUsage& u) {
    return "UU " + hex(u.myId) + " " + std::to_string(u.myArgNr) + " " + hex(u.myArgumentName) + " " + locS(u.location) + " " + std::to_string(u.value);
}

std::string fiS(const CTU::FileInfo& fi) {
    std::string s = std::to_string(fi.functionCalls.size());
    for (const auto& c : fi.functionCalls) s += " " + fcS(c);
    s += " " + std::to_string(fi.nestedCalls.size());
    for (const auto& c : fi.nestedCalls) s += " " + ncS(c);
    return s;
}

std::string elemS(const XMLElement* e) {
    std::string attrs;
    int na = 0;
    for (const XMLAttribute* a = e->FirstAttribute(); a; a = a->Next()) {
        ++na;
        attrs += " " + hex(a->Name()) + " " + hex(a->Value());
    }
    std::string kids;
    int nk = 0;
    for (const XMLElement* k = e->FirstChildElement(); k; k = k->NextSiblingElement()) {
        ++nk;
        kids += " " + elemS(k);
    }
    return hex(e->Name()) + " " + std::to_string(na) + attrs + " " + std::to_string(nk) + kids;
}

std::string wrapDoc(const std::string& check, const std::string& text) {
    // the text AnalyzerInformation::analyzeFile / setFileInfo / close produce (op "file" ties this to the real writer)
    return "<?xml version=\"1.0\"?>\n<analyzerinfo hash=\"1\">\n  <FileInfo check=\"" + check + "\">\n" + text + "  </FileInfo>\n</analyzerinfo>\n";
}

// the per-file part of AnalyzerInformation::processFilesTxt on an in-memory document
std::string walkDoc(const std::string& text, XMLDocument& doc, std::vector<std::pair<std::string, const XMLElement*>>& out) {
    const tinyxml2::XMLError error = doc.Parse(text.data(), text.size());
    if (error != tinyxml2::XML_SUCCESS)
        return "loaderror";
    const XMLElement* const rootNode = doc.FirstChildElement();
    if (rootNode == nullptr)
        return "noroot";
    if (std::strcmp(rootNode->Name(), "analyzerinfo") != 0)
        return "badroot";
    for (const XMLElement* e = rootNode->FirstChildElement(); e; e = e->NextSiblingElement()) {
        if (std::strcmp(e->Name(), "FileInfo") != 0)
            continue;
        const char* checkattr = e->Attribute("check");
        if (checkattr == nullptr)
            continue;
        out.emplace_back(checkattr, e);
    }
    return "ok";
}

class Collect : public ErrorLogger {
public:
    std::vector<std::string> unused, statics, other;
    void reportOut(const std::string&, Color) override {}
    void reportErr(const ErrorMessage& msg) override {
        if (msg.severity == Severity::internal)
            return;
        std::string sym = msg.symbolNames();
        while (!sym.empty() && sym.back() == '\n') sym.pop_back();
        std::string loc = "-:0:0";
        if (!msg.callStack.empty())
            loc = hex(msg.callStack.front().getOrigFile(false)) + ":" + std::to_string(msg.callStack.front().line) + ":" + std::to_string(msg.callStack.front().column);
        const std::string s = loc + ":" + hex(sym);
        if (msg.id == "unusedFunction") unused.push_back(s);
        else if (msg.id == "staticFunction") statics.push_back(s);
        else other.push_back(msg.id);
    }
    void reportMetric(const std::string&) override {}
};

std::string joinSorted(std::vector<std::string> v) {
    std::sort(v.begin(), v.end());
    std::string s;
    for (size_t i = 0; i < v.size(); ++i) s += (i ? "," : "") + v[i];
    return s;
}

std::string readFile(const std::string& p) {
    std::ifstream in(p, std::ios::binary);
    return std::string((std::istreambuf_iterator<char>(in)), std::istreambuf_iterator<char>());
}

// empty (or create) a flat scratch directory without spawning a shell
void freshDir(const std::string& d) {
    ::mkdir(d.c_str(), 0777);
    if (DIR* dir = ::opendir(d.c_str())) {
        while (const dirent* e = ::readdir(dir)) {
            const std::string n = e->d_name;
            if (n != "." && n != "..")
                ::unlink((d + "/" + n).c_str());
        }
        ::closedir(dir);
    }
}

std::string statusOf(const std::string& err) {
    if (err.empty()) return "ok";
    if (err.find("failed to load") == 0) return "loaderror";
    if (err.find("no root node") == 0) return "noroot";
    if (err.find("unexpected root node") == 0) return "badroot";
    return "other:" + hex(err);
}

} // namespace

int main(int argc, char** argv) {
    const std::string scratch = argc > 1 ? argv[1] : ".";
    std::string line;
    while (std::getline(std::cin, line)) {
        const std::vector<std::string> f = fields(line);
        std::string out = "bad-op";
        try {
            if (f.size() == 2 && f[0] == "esc") {
                const std::string s = unhex(f[1]);
                const std::string x = ErrorLogger::toxml(s);
                const std::string text = "<a v=\"" + x + "\"/>";
                XMLDocument doc;
                std::string d = "parse-error";
                if (doc.Parse(text.data(), text.size()) == tinyxml2::XML_SUCCESS && doc.FirstChildElement() && doc.FirstChildElement()->Attribute("v"))
                    d = hex(doc.FirstChildElement()->Attribute("v"));
                out = "X=" + hex(x) + " D=" + d;
            } else if (f.size() == 2 && f[0] == "raw") {
                const std::string text = "<a v=\"" + unhex(f[1]) + "\"/>";
                XMLDocument doc;
                if (doc.Parse(text.data(), text.size()) != tinyxml2::XML_SUCCESS)
                    out = "error";
                else {
                    int n = 0;
                    for (const XMLElement* e = doc.FirstChildElement(); e; e = e->NextSiblingElement()) ++n;
                    if (n != 1)
                        out = "ok other";
                    else {
                        const XMLElement* e = doc.FirstChildElement();
                        const char* v = e->Attribute("v");
                        if (!v)
                            out = "ok V=none";
                        else {
                            int64_t value = 0;
                            const bool ok = e->QueryInt64Attribute("v", &value) == tinyxml2::XML_SUCCESS;
                            out = "ok V=" + hex(v) + " I=" + (ok ? std::to_string(value) : std::string("E"));
                        }
                    }
                }
            } else if (f.size() == 2 && f[0] == "doc") {
                const std::string text = unhex(f[1]);
                XMLDocument doc;
                if (doc.Parse(text.data(), text.size()) != tinyxml2::XML_SUCCESS)
                    out = "error";
                else {
                    int n = 0;
                    std::string s;
                    for (const XMLElement* e = doc.FirstChildElement(); e; e = e->NextSiblingElement()) {
                        ++n;
                        s += " " + elemS(e);
                    }
                    out = "ok " + std::to_string(n) + s;
                }
            } else if (!f.empty() && f[0] == "fi") {
                Cur c{f, 1};
                CTU::FileInfo fi;
                g_pathFilesSimplified = true;
                readFI(c, fi);
                if (c.done()) {
                    const std::string text = fi.toString();
                    XMLDocument doc;
                    std::vector<std::pair<std::string, const XMLElement*>> els;
                    const std::string st = walkDoc(wrapDoc("ctu", text), doc, els);
                    out = "T=" + hex(text) + " L=";
                    if (st == "ok" && !els.empty()) {
                        CTU::FileInfo loaded;
                        loaded.loadFromXml(els.front().second);
                        out += fiS(loaded);
                    } else
                        out += st;
                    out += std::string(" | sp=") + (g_pathFilesSimplified ? "1" : "0");
                }
            } else if (!f.empty() && f[0] == "uu") {
                Cur c{f, 1};
                std::list<CTU::FileInfo::UnsafeUsage> l;
                const long long n = c.num();
                for (long long k = 0; k < n && !c.bad; ++k) l.push_back(readUU(c));
                if (c.done()) {
                    const std::string text = CTU::toString(l);
                    XMLDocument doc;
                    std::vector<std::pair<std::string, const XMLElement*>> els;
                    const std::string st = walkDoc(wrapDoc("Null pointer", text), doc, els);
                    out = "T=" + hex(text) + " L=";
                    if (st == "ok" && !els.empty()) {
                        const std::list<CTU::FileInfo::UnsafeUsage> loaded = CTU::loadUnsafeUsageListFromXml(els.front().second);
                        out += std::to_string(loaded.size());
                        for (const auto& u : loaded) out += " " + uuS(u);
                    } else
                        out += st;
                }
            } else if (f.size() == 3 && f[0] == "ld") {
                // ld <ctu|uu> <hex inner text>: load arbitrary (e.g. mutated) summary text
                const std::string text = unhex(f[2]);
                XMLDocument doc;
                std::vector<std::pair<std::string, const XMLElement*>> els;
                const std::string st = walkDoc(wrapDoc(f[1] == "ctu" ? "ctu" : "Null pointer", text), doc, els);
                out = "L=";
                if (st != "ok")
                    out += st;
                else if (els.empty())
                    out += "nofileinfo";
                else if (f[1] == "ctu") {
                    CTU::FileInfo loaded;
                    loaded.loadFromXml(els.front().second);
                    out += fiS(loaded);
                } else {
                    const std::list<CTU::FileInfo::UnsafeUsage> loaded = CTU::loadUnsafeUsageListFromXml(els.front().second);
                    out += std::to_string(loaded.size());
                    for (const auto& u : loaded) out += " " + uuS(u);
                }
            } else if (f.size() == 3 && f[0] == "chk") {
                const std::string name = unhex(f[1]);
                const std::string text = unhex(f[2]);
                XMLDocument doc;
                std::vector<std::pair<std::string, const XMLElement*>> els;
                const std::string st = walkDoc(wrapDoc(name, text), doc, els);
                if (st != "ok")
                    out = "R=" + st;
                else if (els.empty())
                    out = "R=nofileinfo";
                else {
                    out = "R=nocheck";
                    for (const Check* check : CheckInstances::get()) {
                        if (name != check->name())
                            continue;
                        try {
                            Check::FileInfo* fi = check->loadFileInfoFromXml(els.front().second);
                            if (!fi)
                                out = "R=null";
                            else {
                                out = "R=" + hex(fi->toString());
                                delete fi;
                            }
                        } catch (const std::exception&) {
                            out = "R=threw";
                        }
                    }
                }
            } else if (f.size() >= 3 && f[0] == "file") {
                Cur c{f, 1};
                const unsigned long long hash = c.unum();
                const long long n = c.num();
                std::vector<std::pair<std::string, std::string>> infos;
                for (long long k = 0; k < n && !c.bad; ++k) {
                    std::string chk = c.str();
                    std::string txt = c.str();
                    infos.emplace_back(std::move(chk), std::move(txt));
                }
                if (c.done()) {
                    const std::string bd = scratch + "/bd";
                    freshDir(bd);
                    AnalyzerInformation::writeFilesTxt(bd, {"s.c"}, {});
                    std::string afile;
                    {
                        AnalyzerInformation ai;
                        std::list<ErrorMessage> errors;
                        ai.analyzeFile(bd, "s.c", "", 0, hash, errors);
                        for (const auto& p : infos)
                            ai.setFileInfo(p.first, p.second);
                        ai.close();
                        afile = AnalyzerInformation::getAnalyzerInfoFile(bd, "s.c", "", 0);
                    }
                    const std::string bytes = readFile(afile);
                    std::string k;
                    int cnt = 0;
                    const std::string err = AnalyzerInformation::processFilesTxt(bd, [&](const char* checkattr, const XMLElement* e, const AnalyzerInformation::Info&) {
                        ++cnt;
                        k += " " + hex(checkattr) + " " + elemS(e);
                    });
                    out = "F=" + hex(bytes) + " K=" + (err.empty() ? std::to_string(cnt) + k : statusOf(err));
                }
            } else if (f.size() >= 5 && f[0] == "path") {
                Cur c{f, 1};
                const long long inv = c.num();
                const bool warning = c.num() == 1;
                const int depth = static_cast<int>(c.num());
                CTU::FileInfo fi;
                readFI(c, fi);
                const CTU::FileInfo::UnsafeUsage u = readUU(c);
                if (c.done() && depth <= 10) {
                    const auto callsMap = fi.getCallsMap();
                    const CTU::FileInfo::FunctionCall* fcp = nullptr;
                    const std::list<ErrorMessage::FileLocation> locs =
                        CTU::FileInfo::getErrorPath(static_cast<CTU::FileInfo::InvalidValueType>(inv), u, callsMap, "Using argument ARG", &fcp, warning, depth);
                    out = std::to_string(locs.size());
                    for (const ErrorMessage::FileLocation& l : locs)
                        out += " " + hex(l.getOrigFile(false)) + " " + std::to_string(l.line) + " " + std::to_string(l.column) + " " + hex(l.getinfo());
                }
            } else if (f.size() >= 2 && f[0] == "wpload") {
                // wpload <nfiles> { <hash> <ninfos> {<check> <text>}* }*
                // the cache files are written by the real AnalyzerInformation; they are read by the real processFilesTxt with a
                // copy of the handler of CppCheck::analyseWholeProgram(buildDir, ...) (lib/cppcheck.cpp; the copy is compared with the
                // source by the check) that uses the real CheckInstances / Check::name() / loadFileInfoFromXml / CTU::FileInfo::loadFromXml,
                // and by the real CheckUnusedFunctions::analyseWholeProgram
                Cur c{f, 1};
                const long long nfiles = c.num();
                std::vector<std::pair<unsigned long long, std::vector<std::pair<std::string, std::string>>>> files;
                for (long long k = 0; k < nfiles && !c.bad; ++k) {
                    const unsigned long long hash = c.unum();
                    const long long n = c.num();
                    std::vector<std::pair<std::string, std::string>> infos;
                    for (long long j = 0; j < n && !c.bad; ++j) {
                        std::string chk = c.str();
                        std::string txt = c.str();
                        infos.emplace_back(std::move(chk), std::move(txt));
                    }
                    files.emplace_back(hash, std::move(infos));
                }
                if (c.done()) {
                    const std::string bd = scratch + "/bdw";
                    freshDir(bd);
                    std::list<std::string> names;
                    for (size_t k = 0; k < files.size(); ++k) names.push_back("s" + std::to_string(k) + ".c");
                    AnalyzerInformation::writeFilesTxt(bd, names, {});
                    size_t k = 0;
                    for (const std::string& name : names) {
                        AnalyzerInformation ai;
                        std::list<ErrorMessage> errors;
                        ai.analyzeFile(bd, name, "", 0, files[k].first, errors);
                        for (const auto& p : files[k].second)
                            ai.setFileInfo(p.first, p.second);
                        ai.close();
                        ++k;
                    }
                    std::string w;
                    {
                        std::list<Check::FileInfo*> fileInfoList;
                        std::map<std::string, std::vector<std::string>> byCheck;
                        CTU::FileInfo ctuFileInfo;
                        bool threw = false;
                        std::string err;
                        try {
                            const auto handler = [&fileInfoList, &ctuFileInfo, &byCheck](const char* checkattr, const XMLElement* e, const AnalyzerInformation::Info& filesTxtInfo) {
                                if (std::strcmp(checkattr, "ctu") == 0) {
                                    ctuFileInfo.loadFromXml(e);
                                    return;
                                }
                                for (const Check *check : CheckInstances::get()) {
                                    if (checkattr == check->name()) {
                                        if (Check::FileInfo* fi = check->loadFileInfoFromXml(e)) {
                                            fi->file0 = filesTxtInfo.sourceFile;
                                            fileInfoList.push_back(fi);
                                            byCheck[check->name()].push_back(hex(fi->toString()));
                                        }
                                    }
                                }
                            };
                            err = AnalyzerInformation::processFilesTxt(bd, handler);
                        } catch (const std::exception&) {
                            threw = true;
                        }
                        for (Check::FileInfo* fi : fileInfoList) delete fi;
                        if (threw || !err.empty())
                            w = "none";
                        else {
                            auto join = [&](const char* name) {
                                std::string r;
                                const auto it = byCheck.find(name);
                                if (it != byCheck.end())
                                    for (size_t i = 0; i < it->second.size(); ++i) r += (i ? "," : "") + it->second[i];
                                return r;
                            };
                            w = "ctu:" + fiS(ctuFileInfo) + "|buf:" + join("Bounds checking") + "|cls:" + join("Class") + "|np:" + join("Null pointer") + "|un:" + join("Uninitialized variables");
                        }
                    }
                    std::string bs;
                    {
                        Settings settings;
                        settings.checks.enable(Checks::unusedFunction);
                        Collect b;
                        try {
                            CheckUnusedFunctions::analyseWholeProgram(settings, b, bd);
                            bs = joinSorted(b.unused);
                            if (!b.other.empty()) bs = "threw";
                        } catch (const std::exception&) {
                            bs = "threw";
                        }
                    }
                    out = "W=" + w + " B=" + bs;
                }
            } else if (f.size() >= 2 && f[0] == "unusedsrc") {
                // unusedsrc <nfiles> {<hex filename> <hex code>}*
                Cur c{f, 1};
                const long long n = c.num();
                std::vector<std::pair<std::string, std::string>> files;
                for (long long k = 0; k < n && !c.bad; ++k) {
                    std::string fn = c.str();
                    std::string code = c.str();
                    files.emplace_back(std::move(fn), std::move(code));
                }
                if (c.done()) {
                    Settings settings;
                    settings.checks.enable(Checks::unusedFunction);
                    const std::string bd = scratch + "/bdu";
                    freshDir(bd);
                    std::list<std::string> names;
                    for (const auto& p : files) names.push_back(p.first);
                    AnalyzerInformation::writeFilesTxt(bd, names, {});
                    CheckUnusedFunctions inMemory;
                    std::string x;
                    bool ok = true;
                    for (const auto& p : files) {
                        Collect logger;
                        Tokenizer tokenizer{TokenList{settings, Path::identify(p.first, false)}, logger};
                        tokenizer.list.appendFileIfNew(p.first);
                        if (!tokenizer.list.createTokensFromBuffer(p.second.data(), p.second.size()) || !tokenizer.simplifyTokens1("")) {
                            ok = false;
                            break;
                        }
                        inMemory.parseTokens(tokenizer, settings);
                        CheckUnusedFunctions perFile;
                        perFile.parseTokens(tokenizer, settings);
                        const std::string info = perFile.analyzerInfo(tokenizer);
                        x += (x.empty() ? "" : ",") + hex(info);
                        AnalyzerInformation ai;
                        std::list<ErrorMessage> errors;
                        ai.analyzeFile(bd, p.first, "", 0, 1, errors);
                        ai.setFileInfo("CheckUnusedFunctions", info);
                        ai.close();
                    }
                    if (!ok)
                        out = "tokenize-failed";
                    else {
                        Collect m;
                        inMemory.check(settings, m);
                        Collect b;
                        std::string bs;
                        try {
                            CheckUnusedFunctions::analyseWholeProgram(settings, b, bd);
                            bs = joinSorted(b.unused);
                            if (!b.other.empty()) bs += "+other:" + b.other.front();
                        } catch (const std::exception&) {
                            bs = "threw";
                        }
                        out = "M=" + joinSorted(m.unused) + " S=" + joinSorted(m.statics) + " B=" + bs + " X=" + x;
                    }
                }
            }
        } catch (const std::exception& e) {
            out = std::string("exception:") + hex(e.what());
        }
        std::cout << out << std::endl;
    }
    return 0;
}

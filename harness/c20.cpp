// C20 harness: tinyxml2 (as linked into cppcheck) on byte strings.
//   load <hex>        -> "err" | "ok -" | "ok <hexname> <hexattrname>=<hexvalue> ..."   (XMLDocument::Parse + FirstChildElement)
// NUL bytes are not supported by the C-string based parser and are rejected by the generator.
#include "common.h"
#include "tinyxml2.h"

int main() {
    std::string line;
    while (std::getline(std::cin, line)) {
        std::vector<std::string> f = fields(line);
        if (f.size() == 2 && f[0] == "load") {
            const std::string bytes = unhex(f[1]);
            tinyxml2::XMLDocument doc;
            const tinyxml2::XMLError e = doc.Parse(bytes.c_str(), bytes.size());
            if (e != tinyxml2::XML_SUCCESS) { std::cout << "err\n"; continue; }
            const tinyxml2::XMLElement* root = doc.FirstChildElement();
            if (!root) { std::cout << "ok -\n"; continue; }
            std::string out = "ok " + hex(root->Name());
            for (const tinyxml2::XMLAttribute* a = root->FirstAttribute(); a; a = a->Next())
                out += " " + hex(a->Name()) + "=" + hex(a->Value());
            std::cout << out << "\n";
        } else {
            std::cout << "bad-op\n";
        }
    }
    return 0;
}

// C03 harness: the real Tokenizer (AST, symbol database, value flow) run in-process on one function whose body holds
// one or two `if (<condition>) {}` statements; the condition ASTs are serialised (with the per-token facts the anchored
// code reads: valueType, Known int value, first Known value, values().front()) and the real decision procedures are
// called on them:
//     isSameExpression(true, c1, c2, settings, /*pure*/true, /*followVar*/false)
//     isOppositeCond(false|true, c1, c2, settings, true, false)      isOppositeExpression(c1, c2, settings, true, false)
// in both argument orders, plus CheckCondition::comparison() and CheckCondition::checkCompareValueOutOfTypeRange()
// (private members; this harness - only the harness - reads checkcondition.h with `private` spelled `public`).
//
// op line :  conds <c|cpp> <hexsource>
// output  :  ok <tree1> [| <tree2>] # <r12> <r21> # <findings>
//     tree  = prefix serialisation, space separated:
//               L <col> <hexstr> <vt> <k> <f> <r> <num>      number token; num = MathLib::toBigNumber(tok)
//               V <col> <varid> <vt> <k> <f> <r>             variable token
//               U <col> <op> <vt> <k> <f> <r> <tree>          unary  neg compl lnot
//               B <col> <op> <vt> <k> <f> <r> <tree> <tree>   binary add sub mul div mod shl shr band bor bxor lt le gt ge eq ne land lor
//             vt = <sign s|u|n><type digit 0 bool 1 char 2 short 3 int 4 long 5 long long> or - (no valueType);
//                  pointers and other types: the function is outside the language (`err unsupported`)
//             k  = Token::getKnownValue(INT)->intvalue or -      f = intvalue of the first Known value when it is an INT value, else -
//             r  = values().front().intvalue or -
//     r12   = four letters T/F: isSameExpression, isOppositeCond(false), isOppositeCond(true), isOppositeExpression on (c1,c2)
//     r21   = the same on (c2,c1)              (both `----` when there is only one condition)
//     findings = `-` or `;`-separated  <id>@<col>:<hex short message>   in report order
//            err <what>
#include "common.h"
#include <cctype>
#include <cstdint>
#include <iosfwd>
#include <list>
#include <map>
#include <set>
#include <string>
#include <vector>
#include <memory>
#include "config.h"
#include "token.h"
#include "tokenlist.h"
#include "tokenize.h"
#include "settings.h"
#include "platform.h"
#include "errorlogger.h"
#include "errortypes.h"
#include "standards.h"
#include "astutils.h"
#include "symboldatabase.h"
#include "vfvalue.h"
#include "mathlib.h"
#include "check.h"
#define private public
#include "checkcondition.h"
#undef private

namespace {
    class Collect : public ErrorLogger {
    public:
        std::vector<std::string> items;
        void reportOut(const std::string&, Color) override {}
        void reportErr(const ErrorMessage& msg) override {
            int col = 0;
            if (!msg.callStack.empty())
                col = msg.callStack.back().column;
            items.push_back(msg.id + "@" + std::to_string(col) + ":" + hex(msg.shortMessage()));
        }
        void reportMetric(const std::string&) override {}
    };
    struct Unsupported { std::string what; };
}

static std::string vtStr(const Token* t)
{
    const ValueType* vt = t->valueType();
    if (!vt)
        return "-";
    if (vt->pointer)
        throw Unsupported{"pointer:" + t->str()};
    std::string s;
    s += vt->sign == ValueType::Sign::SIGNED ? 's' : vt->sign == ValueType::Sign::UNSIGNED ? 'u' : 'n';
    switch (vt->type) {
    case ValueType::Type::BOOL: s += '0'; break;
    case ValueType::Type::CHAR: s += '1'; break;
    case ValueType::Type::SHORT: s += '2'; break;
    case ValueType::Type::INT: s += '3'; break;
    case ValueType::Type::LONG: s += '4'; break;
    case ValueType::Type::LONGLONG: s += '5'; break;
    default: throw Unsupported{"type:" + t->str()};
    }
    return s;
}

static std::string annStr(const Token* t)
{
    std::string k = "-", f = "-", r = "-";
    if (const ValueFlow::Value* v = t->getKnownValue(ValueFlow::Value::ValueType::INT))
        k = std::to_string(v->intvalue);
    for (const ValueFlow::Value& v : t->values()) {
        if (v.isKnown()) {
            if (v.isIntValue())
                f = std::to_string(v.intvalue);
            break;
        }
    }
    if (!t->values().empty())
        r = std::to_string(t->values().front().intvalue);
    return k + " " + f + " " + r;
}

static std::string ser(const Token* t)
{
    if (!t)
        throw Unsupported{"null"};
    const std::string head = std::to_string(t->column()) + " ";
    const std::string tail = " " + vtStr(t) + " " + annStr(t);
    const Token* a = t->astOperand1();
    const Token* b = t->astOperand2();
    if (!a && !b) {
        if (t->isNumber())
            return "L " + head + hex(t->str()) + tail + " " + std::to_string(MathLib::toBigNumber(t));
        if (t->varId() != 0 && t->isName())
            return "V " + head + std::to_string(t->varId()) + tail;
        throw Unsupported{"leaf:" + t->str()};
    }
    static const std::map<std::string, std::string> bin = {
        {"+", "add"}, {"-", "sub"}, {"*", "mul"}, {"/", "div"}, {"%", "mod"}, {"<<", "shl"}, {">>", "shr"},
        {"&", "band"}, {"|", "bor"}, {"^", "bxor"}, {"<", "lt"}, {"<=", "le"}, {">", "gt"}, {">=", "ge"},
        {"==", "eq"}, {"!=", "ne"}, {"&&", "land"}, {"||", "lor"}};
    static const std::map<std::string, std::string> un = {{"-", "neg"}, {"~", "compl"}, {"!", "lnot"}};
    if (a && b) {
        const auto it = bin.find(t->str());
        if (it == bin.end())
            throw Unsupported{"binop:" + t->str()};
        return "B " + head + it->second + tail + " " + ser(a) + " " + ser(b);
    }
    if (a && !b) {
        const auto it = un.find(t->str());
        if (it == un.end())
            throw Unsupported{"unop:" + t->str()};
        return "U " + head + it->second + tail + " " + ser(a);
    }
    throw Unsupported{"shape:" + t->str()};
}

static char tf(bool b) { return b ? 'T' : 'F'; }

static std::string results(const Token* c1, const Token* c2, const Settings& settings)
{
    std::string s;
    s += tf(isSameExpression(true, c1, c2, settings, true, false));
    s += tf(isOppositeCond(false, c1, c2, settings, true, false));
    s += tf(isOppositeCond(true, c1, c2, settings, true, false));
    s += tf(isOppositeExpression(c1, c2, settings, true, false));
    return s;
}

static std::string run(const Settings& settings, bool cpp, const std::string& code)
{
    Collect logger;
    try {
        Tokenizer tokenizer{TokenList{settings, cpp ? Standards::Language::CPP : Standards::Language::C}, logger};
        const char* file = cpp ? "test.cpp" : "test.c";
        tokenizer.list.appendFileIfNew(file);
        if (!tokenizer.list.createTokensFromBuffer(code.data(), code.size()))
            return "err createTokens";
        if (!tokenizer.simplifyTokens1(""))
            return "err simplifyTokens1";
        std::vector<const Token*> conds;
        for (const Token* t = tokenizer.tokens(); t; t = t->next()) {
            if (Token::simpleMatch(t, "if (") && t->next()->astOperand2())
                conds.push_back(t->next()->astOperand2());
        }
        if (conds.empty() || conds.size() > 2)
            return "err conds:" + std::to_string(conds.size());
        std::string out = "ok " + ser(conds[0]);
        if (conds.size() == 2)
            out += " | " + ser(conds[1]);
        out += " # ";
        if (conds.size() == 2)
            out += results(conds[0], conds[1], settings) + " " + results(conds[1], conds[0], settings);
        else
            out += "---- ----";
        logger.items.clear();   // whatever the tokenizer itself reported is not part of this tie
        CheckCondition check(&tokenizer, &settings, &logger);
        check.comparison();
        check.checkCompareValueOutOfTypeRange();
        out += " # ";
        if (logger.items.empty())
            out += "-";
        for (size_t i = 0; i < logger.items.size(); ++i)
            out += (i ? ";" : "") + logger.items[i];
        return out;
    } catch (const Unsupported& u) {
        return "err unsupported:" + hex(u.what);
    } catch (const InternalError& e) {
        return "err InternalError:" + e.id;
    } catch (const std::exception& e) {
        return std::string("err exception:") + hex(e.what());
    }
}

int main()
{
    Settings settings;
    settings.severity.enable(Severity::style);
    settings.severity.enable(Severity::warning);
    settings.platform.set(Platform::Type::Unix64);
    std::string line;
    while (std::getline(std::cin, line)) {
        const std::vector<std::string> f = fields(line);
        std::string out = "bad-op";
        if (f.size() == 3 && f[0] == "conds" && (f[1] == "c" || f[1] == "cpp"))
            out = run(settings, f[1] == "cpp", unhex(f[2]));
        std::cout << out << "\n";
    }
    std::cout.flush();
    return 0;
}

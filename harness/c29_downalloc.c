/* C29: an LD_PRELOADed malloc that reverses the address order of the heap.
 *
 * Every block is cut from the TOP of a large reserved region, so a later allocation always has a LOWER address than an
 * earlier one; nothing is ever reused.  This is a conforming allocator: a program whose output is a function of its input
 * prints the same with it as with glibc's.  Output that follows the iteration order of a container keyed by addresses
 * (std::set<const T*>, a comparator that falls back to `a < b` on pointers) comes out reversed.
 *
 * Layout of a block:  [ size_t size | padding ] [ user memory, aligned ]      (size stored in the word below the user pointer)
 * Built by vlib/props/c29.py:  gcc -O1 -shared -fPIC -o c29_downalloc.so harness/c29_downalloc.c
 */
#define _GNU_SOURCE
#include <errno.h>
#include <stddef.h>
#include <stdint.h>
#include <string.h>
#include <sys/mman.h>
#include <unistd.h>

#define REGION ((size_t)16 << 30) /* address space only (MAP_NORESERVE) */
#define MIN_ALIGN 16u

static uintptr_t top;            /* next block ends below this address */
static uintptr_t bottom;
static int busy;                 /* spin lock: cppcheck -j1 is single threaded, but be safe */

static void take(void) { while (__atomic_test_and_set(&busy, __ATOMIC_ACQUIRE)) { } }
static void give(void) { __atomic_clear(&busy, __ATOMIC_RELEASE); }

static void die(const char *msg)
{
    (void)!write(2, msg, strlen(msg));
    _exit(97);
}

static void *carve(size_t size, size_t align)
{
    uintptr_t user;
    if (align < MIN_ALIGN)
        align = MIN_ALIGN;
    if (size == 0)
        size = 1;
    take();
    if (top == 0) {
        void *r = mmap(NULL, REGION, PROT_READ | PROT_WRITE, MAP_PRIVATE | MAP_ANONYMOUS | MAP_NORESERVE, -1, 0);
        if (r == MAP_FAILED)
            die("c29_downalloc: cannot reserve the region\n");
        bottom = (uintptr_t)r;
        top = bottom + REGION;
    }
    if (size > top - bottom - 4096)
        die("c29_downalloc: region exhausted\n");
    user = (top - size) & ~(uintptr_t)(align - 1);
    top = user - sizeof(size_t) * 2;          /* room for the size word, keeps 16-byte alignment of the next block end */
    give();
    ((size_t *)user)[-1] = size;
    return (void *)user;
}

static size_t size_of(const void *p) { return ((const size_t *)p)[-1]; }

void *malloc(size_t n) { return carve(n, MIN_ALIGN); }

void free(void *p) { (void)p; }

void *calloc(size_t n, size_t m)
{
    if (m != 0 && n > SIZE_MAX / m) {
        errno = ENOMEM;
        return NULL;
    }
    return carve(n * m, MIN_ALIGN);          /* untouched anonymous pages read as zero, and nothing is reused */
}

void *realloc(void *p, size_t n)
{
    void *q;
    if (p == NULL)
        return carve(n, MIN_ALIGN);
    if (n <= size_of(p))
        return p;
    q = carve(n, MIN_ALIGN);
    memcpy(q, p, size_of(p));
    return q;
}

void *reallocarray(void *p, size_t n, size_t m)
{
    if (m != 0 && n > SIZE_MAX / m) {
        errno = ENOMEM;
        return NULL;
    }
    return realloc(p, n * m);
}

int posix_memalign(void **out, size_t align, size_t n)
{
    if (align < sizeof(void *) || (align & (align - 1)) != 0)
        return EINVAL;
    *out = carve(n, align);
    return 0;
}

void *aligned_alloc(size_t align, size_t n) { return carve(n, align); }
void *memalign(size_t align, size_t n) { return carve(n, align); }
void *valloc(size_t n) { return carve(n, 4096); }
void *pvalloc(size_t n) { return carve((n + 4095) & ~(size_t)4095, 4096); }
size_t malloc_usable_size(void *p) { return p ? size_of(p) : 0; }

// C01 harness: the real transfer functions of value flow, one op per line (formats mirror lean/Driver/C01.lean).
//   calc <op> <x> <y>      calculate<MathLib::bigint>(op, x, y, &error)
//   calcn <op> <x> <y>     calculate<int>(op, x, y)               (the instance infer.cpp uses, no error pointer)
//   cast <v> <signed> <bit>   ValueFlow::castValue
//   trunc <v> <size> <signed> ValueFlow::truncateIntValue
//   infer <op> <values…> / <values…>   infer(makeIntegralInferModel(), op, lhs, rhs)
//   minmaxv <values…>      getMinValue / getMaxValue
#include "common.h"
#include "mathlib.h"
#include "errortypes.h"
#include "calculate.h"
#include "infer.h"
#include "valueptr.h"
#include "vfvalue.h"
#include "vf_common.h"
#include "symboldatabase.h"

#include <list>
#include <cstdlib>

static bool parseVal(const std::string& s, ValueFlow::Value& v)
{
    size_t i = 0;
    bool isInt = true;
    if (i < s.size() && s[i] == '~') { isInt = false; ++i; }
    if (i + 2 > s.size()) return false;
    const char k = s[i], b = s[i + 1];
    const std::string num = s.substr(i + 2);
    if (num.empty()) return false;
    v = ValueFlow::Value(std::strtoll(num.c_str(), nullptr, 10));
    switch (k) {
    case 'K': v.setKnown(); break;
    case 'P': v.setPossible(); break;
    case 'N': v.setInconclusive(); break;
    case 'I': v.setImpossible(); break;
    default: return false;
    }
    switch (b) {
    case 'U': v.bound = ValueFlow::Value::Bound::Upper; break;
    case 'L': v.bound = ValueFlow::Value::Bound::Lower; break;
    case 'P': v.bound = ValueFlow::Value::Bound::Point; break;
    default: return false;
    }
    v.valueType = isInt ? ValueFlow::Value::ValueType::INT : ValueFlow::Value::ValueType::CONTAINER_SIZE;
    return true;
}

static std::string valStr(const ValueFlow::Value& v)
{
    std::string s;
    if (!v.isIntValue()) s += "~";
    s += v.isKnown() ? 'K' : v.isPossible() ? 'P' : v.isInconclusive() ? 'N' : 'I';
    s += v.bound == ValueFlow::Value::Bound::Upper ? 'U' : v.bound == ValueFlow::Value::Bound::Lower ? 'L' : 'P';
    s += std::to_string(v.intvalue);
    return s;
}

static std::string optStr(const std::vector<MathLib::bigint>& v)
{
    return v.empty() ? "none" : std::to_string(v.front());
}

int main()
{
    std::string line;
    while (std::getline(std::cin, line)) {
        const std::vector<std::string> f = fields(line);
        std::string out = "bad-op";
        try {
            if (f.size() == 4 && f[0] == "calc") {
                bool error = false;
                const MathLib::bigint x = std::strtoll(f[2].c_str(), nullptr, 10), y = std::strtoll(f[3].c_str(), nullptr, 10);
                const MathLib::bigint r = calculate(f[1], x, y, &error);
                out = error ? "err" : "ok:" + std::to_string(r);
            } else if (f.size() == 4 && f[0] == "calcn") {
                const int x = std::atoi(f[2].c_str()), y = std::atoi(f[3].c_str());
                out = std::to_string(calculate(f[1], x, y));
            } else if (f.size() == 4 && f[0] == "cast") {
                ValueFlow::Value v(std::strtoll(f[1].c_str(), nullptr, 10));
                const int bit = std::atoi(f[3].c_str());
                const bool sgn = f[2] == "1";
                if (bit == 0 && sgn)
                    out = "undefined";
                else
                    out = std::to_string(ValueFlow::castValue(v, sgn ? ValueType::Sign::SIGNED : ValueType::Sign::UNSIGNED, bit).intvalue);
            } else if (f.size() == 4 && f[0] == "trunc") {
                const size_t n = std::strtoull(f[2].c_str(), nullptr, 10);
                if (n > 8)
                    out = "undefined";
                else
                    out = std::to_string(ValueFlow::truncateIntValue(std::strtoll(f[1].c_str(), nullptr, 10), n,
                                                                     f[3] == "1" ? ValueType::Sign::SIGNED : ValueType::Sign::UNSIGNED));
            } else if (f.size() >= 2 && f[0] == "infer") {
                std::list<ValueFlow::Value> lhs, rhs;
                bool right = false, ok = true;
                for (size_t i = 2; i < f.size() && ok; ++i) {
                    if (f[i] == "/") { right = true; continue; }
                    ValueFlow::Value v;
                    ok = parseVal(f[i], v);
                    (right ? rhs : lhs).push_back(v);
                }
                if (ok) {
                    const std::vector<ValueFlow::Value> r = infer(makeIntegralInferModel(), f[1], lhs, rhs);
                    out.clear();
                    for (const ValueFlow::Value& v : r)
                        out += (out.empty() ? "" : " ") + valStr(v);
                    if (out.empty()) out = "-";
                }
            } else if (!f.empty() && f[0] == "minmaxv") {
                std::list<ValueFlow::Value> vs;
                bool ok = true;
                for (size_t i = 1; i < f.size() && ok; ++i) {
                    ValueFlow::Value v;
                    ok = parseVal(f[i], v);
                    vs.push_back(v);
                }
                if (ok)
                    out = "min=" + optStr(getMinValue(makeIntegralInferModel(), vs)) + " max=" + optStr(getMaxValue(makeIntegralInferModel(), vs));
            }
        } catch (const InternalError& e) {
            out = "throw:InternalError";
        } catch (const std::exception& e) {
            out = std::string("throw:") + e.what();
        }
        std::cout << out << "\n";
    }
    std::cout.flush();
    return 0;
}

// C13 translator back-end: typed-AST extractor (clang 14 libTooling, linked against libclang-cpp.so.14).
//
// NOT linked against cppcheck.  usage:  c13_astx <source.cpp> -- <compile flags>
// Prints one JSON object per line (closed grammar, consumed by vlib/props/c13.py):
//   {"k":"fn","id":USR,"name":qualified,"loc":"file:line:col","kind":"fn"|"lambda","nothrow":bool}
//   {"k":"try","id":LOC,"fn":USR,"parent":[try ids, innermost first],"handlers":[{"type":T,"loc":LOC,"throws":N,"exits":N}]}
//   {"k":"throw","fn":USR,"loc":LOC,"type":T,"rethrow":bool,"ctx":[try ids enclosing, innermost first],"macro":name}
//   {"k":"call","fn":USR,"callee":USR,"name":qualified callee,"loc":LOC,"ctx":[...],"virt":bool,"noexc":bool,"obj":text,"arg0":text
//        [,"targ":T,"text":call text,"conds":[["+"|"-",condition text]...]] }   conds = dominating conditions (then/else branches,
//        && / || left operands, ?: conditions, loop conditions, early exits `if (c) return;`), only for callees with a guard rule
//   {"k":"ref","fn":USR,"callee":USR,"name":qualified}        address of a function taken / lambda created
//   {"k":"class","name":T,"bases":[T...]}                     public bases of every thrown / caught class type
//   {"k":"override","id":USR,"name":...,"overrides":[USR...]}
//   {"k":"unrec","what":...,"loc":LOC}                        construct the extractor does not understand (fail closed)
// Only code whose *expansion* location lies in one of the project directories given by C13_ROOTS
// (colon separated prefixes) is reported.  Template instantiations are visited (concrete types).
#include "clang/AST/ASTConsumer.h"
#include "clang/AST/ASTContext.h"
#include "clang/AST/RecursiveASTVisitor.h"
#include "clang/AST/ExprCXX.h"
#include "clang/AST/StmtCXX.h"
#include "clang/Frontend/CompilerInstance.h"
#include "clang/Frontend/FrontendAction.h"
#include "clang/Index/USRGeneration.h"
#include "clang/Lex/Lexer.h"
#include "clang/Tooling/CommonOptionsParser.h"
#include "clang/Tooling/Tooling.h"
#include "llvm/Support/CommandLine.h"
#include <cstdio>
#include <cstdlib>
#include <cstring>
#include <set>
#include <string>
#include <vector>

using namespace clang;

static std::vector<std::string> gRoots;

static std::string jesc(const std::string &s)
{
    std::string r;
    for (unsigned char c : s) {
        if (c == '"' || c == '\\') { r += '\\'; r += (char)c; }
        else if (c < 0x20) { char b[8]; snprintf(b, sizeof b, "\\u%04x", c); r += b; }
        else r += (char)c;
    }
    return r;
}

struct FnCtx {
    std::string usr;
    std::vector<std::string> tries;     // enclosing try ids (outermost first)
    std::vector<std::string> catchTy;   // enclosing catch handler types (outermost first)
    std::vector<std::pair<char, std::string>> conds;   // dominating conditions: ('+',text) holds / ('-',text) does not hold
};

// what a catch handler does, as far as the closed grammar needs it
class HandlerScan : public RecursiveASTVisitor<HandlerScan> {
public:
    std::set<std::string> callees;
    bool hasThrow = false, hasReturn = false;
    bool TraverseLambdaExpr(LambdaExpr *) { return true; }
    bool VisitCallExpr(CallExpr *E) {
        if (const FunctionDecl *FD = E->getDirectCallee()) callees.insert(FD->getQualifiedNameAsString());
        return true;
    }
    bool VisitCXXThrowExpr(CXXThrowExpr *) { hasThrow = true; return true; }
    bool VisitReturnStmt(ReturnStmt *) { hasReturn = true; return true; }
};

class V : public RecursiveASTVisitor<V> {
public:
    explicit V(ASTContext &c) : C(c), SM(c.getSourceManager()) {}
    bool shouldVisitTemplateInstantiations() const { return true; }
    bool shouldVisitImplicitCode() const { return false; }

    ASTContext &C;
    SourceManager &SM;
    std::vector<FnCtx> stack;
    std::set<const Expr *> calleeRefs;
    std::set<std::string> seenFn, seenClass, seenLine;

    std::string locStr(SourceLocation L) const {
        if (L.isInvalid()) return "?";
        SourceLocation E = SM.getExpansionLoc(L);
        PresumedLoc P = SM.getPresumedLoc(E, false);
        if (P.isInvalid()) return "?";
        return std::string(P.getFilename()) + ":" + std::to_string(P.getLine()) + ":" + std::to_string(P.getColumn());
    }
    bool inProject(SourceLocation L) const {
        if (L.isInvalid()) return false;
        SourceLocation E = SM.getExpansionLoc(L);
        PresumedLoc P = SM.getPresumedLoc(E, false);
        if (P.isInvalid()) return false;
        std::string f = P.getFilename();
        for (const std::string &r : gRoots)
            if (f.compare(0, r.size(), r) == 0) return true;
        return false;
    }
    std::string macroName(SourceLocation L) const {
        if (!L.isMacroID()) return "";
        return Lexer::getImmediateMacroName(L, SM, C.getLangOpts()).str();
    }
    void out(const std::string &line) {
        if (seenLine.insert(line).second) { fputs(line.c_str(), stdout); fputc('\n', stdout); }
    }
    static std::string usrOf(const Decl *D) {
        llvm::SmallString<256> buf;
        if (index::generateUSRForDecl(D, buf)) return "";
        return buf.str().str();
    }
    std::string tyStr(QualType T) const {
        PrintingPolicy PP(C.getLangOpts());
        PP.SuppressTagKeyword = true;
        PP.FullyQualifiedName = true;
        return T.getAsString(PP);
    }
    std::string typeName(QualType T) {
        T = T.getNonReferenceType().getCanonicalType().getUnqualifiedType();
        std::string s = tyStr(T);
        noteClass(T);
        return s;
    }
    // function identity: USR; lambdas additionally carry their location (USRs of two lambdas in one function may coincide)
    std::string fnId(const FunctionDecl *FD) const {
        std::string usr = usrOf(FD);
        if (usr.empty()) usr = "nousr:" + locStr(FD->getLocation());
        if (const auto *MD = dyn_cast<CXXMethodDecl>(FD))
            if (MD->getParent()->isLambda()) usr += "@lambda@" + locStr(FD->getLocation());
        return usr;
    }
    void noteClass(QualType T) {
        if (T->isPointerType()) {
            QualType P = T->getPointeeType();
            std::string n = tyStr(T);
            if (!seenClass.insert(n).second) return;
            std::string b;
            if (!P.isConstQualified()) {
                QualType CP = C.getPointerType(P.withConst());
                b = "\"" + jesc(tyStr(CP)) + "\"";
                noteClass(CP);
            }
            out("{\"k\":\"class\",\"name\":\"" + jesc(n) + "\",\"bases\":[" + b + "]}");
            return;
        }
        const CXXRecordDecl *RD = T->getAsCXXRecordDecl();
        if (!RD) return;
        RD = RD->getDefinition();
        if (!RD) return;
        std::string n = tyStr(C.getRecordType(RD).getCanonicalType());
        if (!seenClass.insert(n).second) return;
        std::string b;
        for (const CXXBaseSpecifier &BS : RD->bases()) {
            if (BS.getAccessSpecifier() != AS_public) continue;
            QualType BT = BS.getType().getCanonicalType().getUnqualifiedType();
            if (!b.empty()) b += ",";
            b += "\"" + jesc(tyStr(BT)) + "\"";
            noteClass(BT);
        }
        out("{\"k\":\"class\",\"name\":\"" + jesc(n) + "\",\"bases\":[" + b + "]}");
    }
    std::string ctxList(const std::vector<std::string> &v) {
        std::string s;
        for (auto it = v.rbegin(); it != v.rend(); ++it) {
            if (!s.empty()) s += ",";
            s += "\"" + jesc(*it) + "\"";
        }
        return "[" + s + "]";
    }
    // non-throwing exception specification: an exception that tries to leave such a function calls std::terminate
    // ([except.spec]); destructors are noexcept unless declared otherwise.  Unresolved specifications (unevaluated /
    // uninstantiated) are resolved by rule: destructor -> nothrow, anything else -> may throw.
    static bool isNothrowFn(const FunctionDecl *FD) {
        const auto *FPT = FD->getType()->getAs<FunctionProtoType>();
        if (!FPT) return false;
        switch (FPT->getExceptionSpecType()) {
        case EST_Unparsed:
        case EST_Unevaluated:
        case EST_Uninstantiated:
            return isa<CXXDestructorDecl>(FD);
        case EST_None:
            // a destructor without any specification written is implicitly noexcept(true) when all subobject destructors are
            return isa<CXXDestructorDecl>(FD);
        case EST_DependentNoexcept:
        case EST_NoexceptFalse:
        case EST_Dynamic:
        case EST_MSAny:
            return false;
        default:
            return FPT->isNothrow();
        }
    }
    std::string fnRecord(const FunctionDecl *FD, const char *kind) {
        std::string usr = fnId(FD);
        if (seenFn.insert(usr).second)
            out("{\"k\":\"fn\",\"id\":\"" + jesc(usr) + "\",\"name\":\"" + jesc(FD->getQualifiedNameAsString()) + "\",\"loc\":\"" + jesc(locStr(FD->getLocation())) + "\",\"kind\":\"" + kind +
                "\",\"nothrow\":" + (isNothrowFn(FD) ? "true" : "false") + "}");
        return usr;
    }

    // ---- function boundaries ---------------------------------------------------------------
    bool TraverseDecl(Decl *D) {
        if (!D) return true;
        if (auto *FD = dyn_cast<FunctionDecl>(D)) {
            if (FD->doesThisDeclarationHaveABody() && inProject(FD->getLocation())) {
                // a lambda's call operator is handled in TraverseLambdaExpr
                if (const auto *MD = dyn_cast<CXXMethodDecl>(FD))
                    if (MD->getParent()->isLambda())
                        return RecursiveASTVisitor<V>::TraverseDecl(D);
                FnCtx ctx;
                ctx.usr = fnRecord(FD, "fn");
                if (const auto *MD = dyn_cast<CXXMethodDecl>(FD)) {
                    std::string o;
                    for (const CXXMethodDecl *OM : MD->overridden_methods()) {
                        if (!o.empty()) o += ",";
                        o += "\"" + jesc(usrOf(OM)) + "\"";
                    }
                    if (!o.empty())
                        out("{\"k\":\"override\",\"id\":\"" + jesc(ctx.usr) + "\",\"name\":\"" + jesc(FD->getQualifiedNameAsString()) + "\",\"overrides\":[" + o + "]}");
                }
                stack.push_back(ctx);
                // function-try-blocks: the body is a CXXTryStmt, handled by TraverseCXXTryStmt
                bool r = RecursiveASTVisitor<V>::TraverseDecl(D);
                stack.pop_back();
                return r;
            }
            if (!inProject(FD->getLocation())) {
                // bodies outside the project (std headers) are not reported, but lambdas / code of the project
                // never live inside them lexically: skip
                return true;
            }
        }
        if (auto *VD = dyn_cast<VarDecl>(D)) {
            if (VD->hasGlobalStorage() && !VD->isStaticLocal() && VD->hasInit() && inProject(VD->getLocation()) && stack.empty()) {
                FnCtx ctx;
                ctx.usr = "<global-init>";
                if (seenFn.insert(ctx.usr).second)
                    out("{\"k\":\"fn\",\"id\":\"<global-init>\",\"name\":\"<global-init>\",\"loc\":\"?\",\"kind\":\"fn\"}");
                stack.push_back(ctx);
                bool r = RecursiveASTVisitor<V>::TraverseDecl(D);
                stack.pop_back();
                return r;
            }
        }
        return RecursiveASTVisitor<V>::TraverseDecl(D);
    }

    bool TraverseLambdaExpr(LambdaExpr *LE) {
        if (stack.empty() || !inProject(LE->getBeginLoc()))
            return RecursiveASTVisitor<V>::TraverseLambdaExpr(LE);
        const CXXMethodDecl *op = LE->getCallOperator();
        FnCtx ctx;
        ctx.usr = fnRecord(op, "lambda");
        // creating a lambda = taking the address of its call operator
        out("{\"k\":\"ref\",\"fn\":\"" + jesc(stack.back().usr) + "\",\"callee\":\"" + jesc(ctx.usr) + "\",\"name\":\"" + jesc(op->getQualifiedNameAsString()) + "\",\"loc\":\"" + jesc(locStr(LE->getBeginLoc())) + "\",\"ctx\":" + ctxList(stack.back().tries) + ",\"lambda\":true}");
        // captures / init-captures are evaluated in the enclosing function
        for (unsigned i = 0; i < LE->capture_size(); ++i) {
            const LambdaCapture *cap = LE->capture_begin() + i;
            Expr *init = *(LE->capture_init_begin() + i);
            if (cap->isExplicit() || true)
                if (init) TraverseStmt(init);
        }
        stack.push_back(ctx);
        bool r = TraverseStmt(LE->getBody());
        stack.pop_back();
        return r;
    }

    // ---- try / catch ------------------------------------------------------------------------
    bool TraverseCXXTryStmt(CXXTryStmt *S) {
        if (stack.empty() || !inProject(S->getBeginLoc()))
            return RecursiveASTVisitor<V>::TraverseCXXTryStmt(S);
        FnCtx &F = stack.back();
        std::string id = locStr(S->getBeginLoc());
        std::string hs;
        for (unsigned i = 0; i < S->getNumHandlers(); ++i) {
            CXXCatchStmt *H = S->getHandler(i);
            std::string ty = H->getExceptionDecl() ? typeName(H->getCaughtType()) : "...";
            if (H->getExceptionDecl()) {
                QualType CT = H->getCaughtType();
                // catching by pointer or a non-class type is outside the closed grammar
                if (!CT.getNonReferenceType()->isRecordType() && !(CT->isPointerType() && CT->getPointeeType()->isRecordType()))
                    out("{\"k\":\"unrec\",\"what\":\"catch of non-class type " + jesc(ty) + "\",\"loc\":\"" + jesc(locStr(H->getBeginLoc())) + "\"}");
            }
            HandlerScan hscan;
            hscan.TraverseStmt(H->getHandlerBlock());
            std::string cs;
            for (const std::string &c : hscan.callees) {
                if (!cs.empty()) cs += ",";
                cs += "\"" + jesc(c) + "\"";
            }
            if (!hs.empty()) hs += ",";
            hs += "{\"type\":\"" + jesc(ty) + "\",\"loc\":\"" + jesc(locStr(H->getBeginLoc())) + "\",\"calls\":[" + cs + "],\"throws\":" + (hscan.hasThrow ? "true" : "false") +
                  ",\"returns\":" + (hscan.hasReturn ? "true" : "false") + "}";
        }
        out("{\"k\":\"try\",\"id\":\"" + jesc(id) + "\",\"fn\":\"" + jesc(F.usr) + "\",\"parent\":" + ctxList(F.tries) + ",\"handlers\":[" + hs + "]}");
        F.tries.push_back(id);
        bool r = TraverseStmt(S->getTryBlock());
        stack.back().tries.pop_back();
        for (unsigned i = 0; r && i < S->getNumHandlers(); ++i) {
            CXXCatchStmt *H = S->getHandler(i);
            std::string ty = H->getExceptionDecl() ? typeName(H->getCaughtType()) : "...";
            stack.back().catchTy.push_back(ty + "@" + id + "#" + std::to_string(i));
            r = TraverseStmt(H->getHandlerBlock());
            stack.back().catchTy.pop_back();
        }
        return r;
    }

    bool VisitCXXThrowExpr(CXXThrowExpr *E) {
        if (stack.empty() || !inProject(E->getBeginLoc())) return true;
        FnCtx &F = stack.back();
        std::string ty, rethrow = "false", handler;
        if (const Expr *sub = E->getSubExpr()) {
            QualType T = sub->getType();
            if (T->isDependentType()) return true;          // template pattern; instantiations are visited too
            if (!T.getNonReferenceType()->isRecordType() && !(T->isPointerType() && T->getPointeeType()->isRecordType()))
                out("{\"k\":\"unrec\",\"what\":\"throw of non-class type\",\"loc\":\"" + jesc(locStr(E->getBeginLoc())) + "\"}");
            ty = typeName(T);
        } else {
            rethrow = "true";
            if (F.catchTy.empty()) {
                out("{\"k\":\"unrec\",\"what\":\"rethrow outside a handler\",\"loc\":\"" + jesc(locStr(E->getBeginLoc())) + "\"}");
                return true;
            }
            std::string c = F.catchTy.back();
            ty = c.substr(0, c.find('@'));
            handler = c.substr(c.find('@') + 1);
        }
        out("{\"k\":\"throw\",\"fn\":\"" + jesc(F.usr) + "\",\"loc\":\"" + jesc(locStr(E->getBeginLoc())) + "\",\"type\":\"" + jesc(ty) + "\",\"rethrow\":" + rethrow +
            ",\"handler\":\"" + jesc(handler) + "\",\"ctx\":" + ctxList(F.tries) + ",\"macro\":\"" + jesc(macroName(E->getBeginLoc())) + "\"}");
        return true;
    }

    // ---- calls ------------------------------------------------------------------------------
    std::string argText(const Expr *A) {
        if (!A) return "";
        CharSourceRange R = CharSourceRange::getTokenRange(SM.getExpansionRange(A->getSourceRange()).getAsRange());
        std::string s = Lexer::getSourceText(R, SM, C.getLangOpts()).str();
        if (s.size() > 400) s = s.substr(0, 400);
        return s;
    }
    // dominating conditions are reported for the callees the guard rules of the translator talk about
    // callees the guard rules / the std-throw table of the translator talk about
    static bool interesting(const std::string &n) {
        auto ends = [&](const char *suf) { size_t l = strlen(suf); return n.size() >= l && n.compare(n.size() - l, l, suf) == 0; };
        return ends("::at") || n.compare(0, 8, "std::sto") == 0 || n == "picojson::value::get" ||
               n.find("regex") != std::string::npos || n == "std::async" || n == "std::thread::thread";
    }
    std::string condsField(const FunctionDecl *FD, const Expr *whole) {
        std::string n = FD->getQualifiedNameAsString();
        if (!interesting(n))
            return "";
        std::string s;
        for (const auto &c : stack.back().conds) {
            if (!s.empty()) s += ",";
            s += std::string("[\"") + c.first + "\",\"" + jesc(c.second) + "\"]";
        }
        std::string targ;
        if (const TemplateArgumentList *TAL = FD->getTemplateSpecializationArgs())
            if (TAL->size() > 0 && TAL->get(0).getKind() == TemplateArgument::Type)
                targ = tyStr(TAL->get(0).getAsType().getCanonicalType());
        return ",\"targ\":\"" + jesc(targ) + "\",\"text\":\"" + jesc(argText(whole)) + "\",\"conds\":[" + s + "]";
    }
    void pushCond(const Expr *E, char pol) {
        std::string t = argText(E);
        stack.back().conds.emplace_back(pol, t);
    }
    void popCond() { stack.back().conds.pop_back(); }
    static bool alwaysExits(const Stmt *S) {
        if (!S) return false;
        if (isa<ReturnStmt>(S) || isa<ContinueStmt>(S) || isa<BreakStmt>(S) || isa<GotoStmt>(S) || isa<CXXThrowExpr>(S)) return true;
        if (const auto *EWC = dyn_cast<ExprWithCleanups>(S)) return alwaysExits(EWC->getSubExpr());
        if (const auto *CS = dyn_cast<CompoundStmt>(S)) return !CS->body_empty() && alwaysExits(CS->body_back());
        return false;
    }
    bool TraverseCompoundStmt(CompoundStmt *S) {
        if (stack.empty()) return RecursiveASTVisitor<V>::TraverseCompoundStmt(S);
        size_t pushed = 0;
        bool r = true;
        for (Stmt *c : S->body()) {
            if (!(r = TraverseStmt(c))) break;
            if (const auto *I = dyn_cast<IfStmt>(c))
                if (!I->getElse() && I->getCond() && !I->getConditionVariable() && alwaysExits(I->getThen())) { pushCond(I->getCond(), '-'); ++pushed; }
        }
        while (pushed--) popCond();
        return r;
    }
    bool TraverseIfStmt(IfStmt *S) {
        if (stack.empty()) return RecursiveASTVisitor<V>::TraverseIfStmt(S);
        if (S->getInit() && !TraverseStmt(S->getInit())) return false;
        if (S->getConditionVariableDeclStmt() && !TraverseStmt(S->getConditionVariableDeclStmt())) return false;
        if (S->getCond() && !TraverseStmt(S->getCond())) return false;
        const bool usable = S->getCond() && !S->getConditionVariable();
        if (usable) pushCond(S->getCond(), '+');
        bool r = TraverseStmt(S->getThen());
        if (usable) popCond();
        if (r && S->getElse()) {
            if (usable) pushCond(S->getCond(), '-');
            r = TraverseStmt(S->getElse());
            if (usable) popCond();
        }
        return r;
    }
    bool TraverseBinaryOperator(BinaryOperator *B) {
        if (stack.empty() || !(B->getOpcode() == BO_LAnd || B->getOpcode() == BO_LOr))
            return RecursiveASTVisitor<V>::TraverseBinaryOperator(B);
        if (!TraverseStmt(B->getLHS())) return false;
        pushCond(B->getLHS(), B->getOpcode() == BO_LAnd ? '+' : '-');
        bool r = TraverseStmt(B->getRHS());
        popCond();
        return r;
    }
    bool TraverseConditionalOperator(ConditionalOperator *E) {
        if (stack.empty()) return RecursiveASTVisitor<V>::TraverseConditionalOperator(E);
        if (!TraverseStmt(E->getCond())) return false;
        pushCond(E->getCond(), '+');
        bool r = TraverseStmt(E->getTrueExpr());
        popCond();
        if (!r) return false;
        pushCond(E->getCond(), '-');
        r = TraverseStmt(E->getFalseExpr());
        popCond();
        return r;
    }
    bool TraverseWhileStmt(WhileStmt *S) {
        if (stack.empty() || !S->getCond() || S->getConditionVariable()) return RecursiveASTVisitor<V>::TraverseWhileStmt(S);
        if (!TraverseStmt(S->getCond())) return false;
        pushCond(S->getCond(), '+');
        bool r = TraverseStmt(S->getBody());
        popCond();
        return r;
    }
    bool TraverseForStmt(ForStmt *S) {
        if (stack.empty() || !S->getCond() || S->getConditionVariable()) return RecursiveASTVisitor<V>::TraverseForStmt(S);
        if (S->getInit() && !TraverseStmt(S->getInit())) return false;
        if (!TraverseStmt(S->getCond())) return false;
        pushCond(S->getCond(), '+');
        bool r = TraverseStmt(S->getBody());
        if (r && S->getInc()) r = TraverseStmt(S->getInc());
        popCond();
        return r;
    }
    void emitCall(const FunctionDecl *FD, SourceLocation L, bool virt, const Expr *obj, const Expr *a0, const Expr *whole) {
        FnCtx &F = stack.back();
        // calls of functions declared outside the project matter only if the translator has a rule for them
        if (!inProject(FD->getLocation()) && !interesting(FD->getQualifiedNameAsString()))
            return;
        std::string usr = fnId(FD);
        const bool noexc = isNothrowFn(FD);
        out("{\"k\":\"call\",\"fn\":\"" + jesc(F.usr) + "\",\"callee\":\"" + jesc(usr) + "\",\"name\":\"" + jesc(FD->getQualifiedNameAsString()) + "\",\"loc\":\"" + jesc(locStr(L)) +
            "\",\"ctx\":" + ctxList(F.tries) + ",\"virt\":" + (virt ? "true" : "false") + ",\"noexc\":" + (noexc ? "true" : "false") +
            ",\"obj\":\"" + jesc(argText(obj)) + "\",\"arg0\":\"" + jesc(argText(a0)) + "\",\"incatch\":" + (F.catchTy.empty() ? "false" : "true") + condsField(FD, whole) + "}");
    }
    bool VisitCallExpr(CallExpr *E) {
        if (stack.empty() || !inProject(E->getBeginLoc())) return true;
        if (const Expr *ce = E->getCallee())
            calleeRefs.insert(ce->IgnoreParenImpCasts());
        const FunctionDecl *FD = E->getDirectCallee();
        if (!FD) {
            const Expr *ce = E->getCallee();
            if (ce && (ce->isTypeDependent() || ce->getType()->isDependentType())) return true;   // template pattern
            // call through a function pointer / pointer to member: the possible targets are the functions whose
            // address is taken somewhere (reported as "ref")
            out("{\"k\":\"icall\",\"fn\":\"" + jesc(stack.back().usr) + "\",\"loc\":\"" + jesc(locStr(E->getBeginLoc())) + "\",\"ctx\":" + ctxList(stack.back().tries) + "}");
            return true;
        }
        bool virt = false;
        const Expr *obj = nullptr;
        if (const auto *MC = dyn_cast<CXXMemberCallExpr>(E)) {
            if (const auto *MD = dyn_cast<CXXMethodDecl>(FD)) {
                virt = MD->isVirtual();
                if (const auto *ME = dyn_cast<MemberExpr>(MC->getCallee()->IgnoreParenImpCasts()))
                    if (ME->hasQualifier()) virt = false;
            }
            obj = MC->getImplicitObjectArgument();
        } else if (const auto *OC = dyn_cast<CXXOperatorCallExpr>(E)) {
            if (const auto *MD = dyn_cast<CXXMethodDecl>(FD)) virt = MD->isVirtual();
            if (OC->getNumArgs() > 0) obj = OC->getArg(0);
        }
        const Expr *a0 = E->getNumArgs() > 0 ? E->getArg(0) : nullptr;
        if (isa<CXXOperatorCallExpr>(E) && isa<CXXMethodDecl>(FD))
            a0 = E->getNumArgs() > 1 ? E->getArg(1) : nullptr;
        emitCall(FD, E->getBeginLoc(), virt, obj, a0, E);
        return true;
    }
    bool VisitCXXConstructExpr(CXXConstructExpr *E) {
        if (stack.empty() || !inProject(E->getBeginLoc())) return true;
        if (const CXXConstructorDecl *CD = E->getConstructor())
            emitCall(CD, E->getBeginLoc(), false, nullptr, E->getNumArgs() > 0 ? E->getArg(0) : nullptr, E);
        return true;
    }
    bool VisitDeclRefExpr(DeclRefExpr *E) {
        if (stack.empty() || !inProject(E->getBeginLoc())) return true;
        if (calleeRefs.count(E)) return true;
        if (const auto *FD = dyn_cast<FunctionDecl>(E->getDecl())) {
            std::string usr = fnId(FD);
            out("{\"k\":\"ref\",\"fn\":\"" + jesc(stack.back().usr) + "\",\"callee\":\"" + jesc(usr) + "\",\"name\":\"" + jesc(FD->getQualifiedNameAsString()) + "\",\"loc\":\"" + jesc(locStr(E->getBeginLoc())) + "\",\"ctx\":" + ctxList(stack.back().tries) + ",\"lambda\":false}");
        }
        return true;
    }
    bool VisitCXXDynamicCastExpr(CXXDynamicCastExpr *E) {
        if (stack.empty() || !inProject(E->getBeginLoc())) return true;
        if (E->getType()->isReferenceType() || E->isGLValue())
            out("{\"k\":\"stdthrow\",\"fn\":\"" + jesc(stack.back().usr) + "\",\"loc\":\"" + jesc(locStr(E->getBeginLoc())) + "\",\"what\":\"dynamic_cast<T&>\",\"type\":\"std::bad_cast\",\"ctx\":" + ctxList(stack.back().tries) + "}");
        return true;
    }
};

class Consumer : public ASTConsumer {
public:
    void HandleTranslationUnit(ASTContext &Ctx) override {
        V v(Ctx);
        v.TraverseDecl(Ctx.getTranslationUnitDecl());
        fputs("{\"k\":\"end\"}\n", stdout);
    }
};

class Action : public ASTFrontendAction {
public:
    std::unique_ptr<ASTConsumer> CreateASTConsumer(CompilerInstance &, llvm::StringRef) override {
        return std::make_unique<Consumer>();
    }
};

static llvm::cl::OptionCategory Cat("c13_astx");

int main(int argc, const char **argv)
{
    const char *r = getenv("C13_ROOTS");
    std::string roots = r ? r : "/repo/lib/:/repo/cli/:/repo/frontend/:/repo/externals/simplecpp/:/repo/externals/picojson/";
    size_t p = 0;
    while (p <= roots.size()) {
        size_t q = roots.find(':', p);
        if (q == std::string::npos) q = roots.size();
        if (q > p) gRoots.push_back(roots.substr(p, q - p));
        p = q + 1;
    }
    auto Exp = tooling::CommonOptionsParser::create(argc, argv, Cat);
    if (!Exp) {
        llvm::errs() << llvm::toString(Exp.takeError());
        return 2;
    }
    tooling::ClangTool Tool(Exp->getCompilations(), Exp->getSourcePathList());
    return Tool.run(tooling::newFrontendActionFactory<Action>().get());
}

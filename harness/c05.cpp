// C05 harness.
//   lex <hexsrc>      -> simplecpp::TokenList(data,size,...) as constructed (readfile + combineOperators), comments kept
//   tokens <hexsrc>   -> ... after removeComments()
//   lexf <hexsrc>     -> the same through simplecpp::TokenList(filename, ...) as the CLI does (temp file in argv[1])
//   output: T {<hexstr>:<line>:<col>:<name><number><comment>:<op>}*
//   match <hexpattern> <varid> <ntok> {<hexstr> <varid>}*   -> real interpreted Token::Match; output: T <tokType>:<isName> ... | I <res>
#include "common.h"
#include <fstream>
#include "simplecpp.h"
#include "token.h"
#include "tokenlist.h"
#include "settings.h"
#include "errortypes.h"
#include "standards.h"

static std::string R(bool b) { return b ? "1" : "0"; }

static std::string dump(const simplecpp::TokenList& list) {
    std::string out = "T";
    for (const simplecpp::Token* t = list.cfront(); t; t = t->next) {
        out += " " + hex(t->str()) + ":" + std::to_string(t->location.line) + ":" + std::to_string(t->location.col) + ":" +
               R(t->name) + R(t->number) + R(t->comment) + ":" + std::to_string(static_cast<int>(static_cast<unsigned char>(t->op)));
    }
    return out;
}

int main(int argc, char** argv) {
    Settings settings;
    std::string line;
    while (std::getline(std::cin, line)) {
        std::vector<std::string> f = fields(line);
        if (f.size() == 2 && f[0] == "lexf" && argc > 1) {
            // the constructor the CLI uses: simplecpp::TokenList(filename, ...) (FileStream)
            const std::string src = unhex(f[1]);
            const std::string path = std::string(argv[1]) + "/lexf.c";
            { std::ofstream o(path, std::ios::binary); o << src; }
            std::vector<std::string> files;
            simplecpp::OutputList outputList;
            simplecpp::TokenList list(path, files, &outputList);
            std::cout << dump(list) << std::endl;
            continue;
        }
        if (f.size() == 2 && (f[0] == "lex" || f[0] == "tokens")) {
            const std::string src = unhex(f[1]);
            std::vector<std::string> files;
            simplecpp::OutputList outputList;
            simplecpp::TokenList list(simplecpp::View(src.data(), src.size()), files, "f.c", &outputList);
            if (f[0] == "tokens")
                list.removeComments();
            std::cout << dump(list) << std::endl;
            continue;
        }
        if (f.size() >= 4 && f[0] == "match") {
            const std::string pat = unhex(f[1]);
            const int varid = std::stoi(f[2]);
            const int n = std::stoi(f[3]);
            TokenList list{settings, Standards::Language::CPP};
            for (int i = 0; i < n; ++i) {
                list.addtoken(unhex(f[4 + 2 * i]), 1, i + 1, 0);
                const int v = std::stoi(f[5 + 2 * i]);
                if (v) { try { list.back()->varId(v); } catch (const InternalError&) {} }
            }
            std::string out = "T";
            for (const Token* t = list.front(); t; t = t->next())
                out += " " + std::to_string(static_cast<int>(t->tokType())) + ":" + R(t->isName());
            const char* p = pat.c_str();
            std::string I;
            try { I = R(Token::Match(list.front(), p, varid)); } catch (const InternalError&) { I = "E"; }
            std::cout << out << " | I " << I << std::endl;
            continue;
        }
        std::cout << "bad-op" << std::endl;
    }
    return 0;
}

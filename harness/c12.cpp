// C12 harness: the real Preprocessor::getConfigs() / Preprocessor::getcode() / Settings::getMaxConfigs()
// on files printed from directive lists.
// op lines (see lean/Driver/C12.lean):
//   gc <flags> <ud> <undefs> <defined> <dir>*     -> "C <cfg>,<cfg>,... | L <r.r>/<r>/..."   ("L ?": not a well nested tree)
//   sel <force> <maxopt> <maxproj> <ud> <cfgs> -> "M <Settings::getMaxConfigs()>"        (selection itself: CLI tie)
//   th <hexcode>                              -> "H <TokenList::calculateHash() of the tokenized code>"
//   src <dir>*                                -> hex of the printed file (used by the CLI tie and the docs)
#include "common.h"
#include "preprocessor.h"
#include "settings.h"
#include "errorlogger.h"
#include "standards.h"
#include "path.h"
#include "tokenlist.h"
#include <simplecpp.h>
#include <set>
#include <algorithm>
#include <cctype>

namespace {
class NullLogger : public ErrorLogger {
public:
    void reportOut(const std::string&, Color) override {}
    void reportErr(const ErrorMessage&) override {}
    void reportMetric(const std::string&) override {}
};

std::vector<std::string> names(const std::string& s) {
    std::vector<std::string> r;
    if (s == "-") return r;
    std::string cur; std::istringstream is(s);
    while (std::getline(is, cur, ',')) r.push_back(unhex(cur));
    return r;
}

// print one directive; returns false for an unknown word
bool printDir(const std::string& w, std::string& out) {
    if (w == "e") { out += "#else\n"; return true; }
    if (w == "x") { out += "#endif\n"; return true; }
    if (w.empty()) return false;
    const std::string arg = w.substr(1);
    switch (w[0]) {
    case 'r': {
        const long k = std::stol(arg);
        if (k >= 1000) {
            // twin regions 1000+2j / 1000+2j+1: the same multiset of tokens, the out-of-bounds write in a different line
            const long j = (k - 1000) / 2;
            const std::string bad = "a[" + std::to_string(100 + j) + "]=0;", good = "a[0]=0;";
            out += "void p" + std::to_string(j) + "(void){int a[2]; " + ((k % 2 == 0) ? bad : good) + "\n " + ((k % 2 == 0) ? good : bad) + "}\n";
            return true;
        }
        out += "void f" + std::to_string(k) + "(void){int a[1]; a[" + std::to_string(k + 1) + "]=0;}\n";
        return true;
    }
    case 'd': out += "#ifdef " + unhex(arg) + "\n"; return true;
    case 'n': out += "#ifndef " + unhex(arg) + "\n"; return true;
    case 'D': out += "#if defined(" + unhex(arg) + ")\n"; return true;
    case 'N': out += "#if !defined(" + unhex(arg) + ")\n"; return true;
    case 'm': out += "#define " + unhex(arg) + "\n"; return true;
    default: return false;
    }
}

// same acceptance as the model's parseTree: well nested, at most one #else per conditional, no #define
bool wellNested(const std::vector<std::string>& f, size_t from) {
    std::vector<bool> st;
    for (size_t i = from; i < f.size(); ++i) {
        const char c = f[i][0];
        if (c == 'm') return false;
        if (c == 'd' || c == 'n' || c == 'D' || c == 'N') st.push_back(false);
        else if (c == 'e') { if (st.empty() || st.back()) return false; st.back() = true; }
        else if (c == 'x') { if (st.empty()) return false; st.pop_back(); }
    }
    return st.empty();
}

std::string regionsOf(const std::string& code) {
    std::set<long> rs;
    for (size_t p = code.find("void f"); p != std::string::npos; p = code.find("void f", p + 1)) {
        size_t q = p + 6, e = q;
        while (e < code.size() && std::isdigit(static_cast<unsigned char>(code[e]))) ++e;
        if (e > q) rs.insert(std::stol(code.substr(q, e - q)));
    }
    for (size_t p = code.find("void p"); p != std::string::npos; p = code.find("void p", p + 1)) {
        size_t q = p + 6, e = q;
        while (e < code.size() && std::isdigit(static_cast<unsigned char>(code[e]))) ++e;
        if (e == q) continue;
        const long j = std::stol(code.substr(q, e - q));
        const size_t pb = code.find("[ " + std::to_string(100 + j) + " ]", e), pg = code.find("[ 0 ]", e);
        rs.insert(1000 + 2 * j + ((pb != std::string::npos && (pg == std::string::npos || pb < pg)) ? 0 : 1));
    }
    if (rs.empty()) return "-";
    std::string out;
    for (long r : rs) { if (!out.empty()) out += '.'; out += std::to_string(r); }
    return out;
}
}

int main() {
    std::string line;
    NullLogger logger;
    while (std::getline(std::cin, line)) {
        const std::vector<std::string> f = fields(line);
        if (f.empty()) { std::cout << "bad-op" << std::endl; continue; }
        try {
            if (f[0] == "src") {
                std::string code; bool ok = true;
                for (size_t i = 1; i < f.size(); ++i) ok = ok && printDir(f[i], code);
                std::cout << (ok ? hex(code) : std::string("bad-op")) << std::endl;
            } else if (f[0] == "th" && f.size() == 2) {
                // the real TokenList::calculateHash() of the token list of a piece of code
                Settings settings;
                TokenList list{settings, Standards::Language::C};
                const std::string code = unhex(f[1]);
                list.createTokensFromBuffer(code.data(), code.size());
                std::cout << "H " << list.calculateHash() << std::endl;
            } else if (f[0] == "sel" && f.size() == 6) {
                Settings s;
                s.force = f[1] == "1";
                s.maxConfigsOption = std::stoi(f[2]);
                s.maxConfigsProject = std::stoi(f[3]);
                s.userDefines = unhex(f[4]);
                std::cout << "M " << s.getMaxConfigs() << std::endl;
            } else if (f[0] == "gc" && f.size() >= 5) {
                // f[1] (model variant flags) is for the Lean driver only: this harness always runs the code as it is
                const std::vector<std::string> defd = names(f[4]);
                if (!(defd.size() == 1 && defd[0] == "__cplusplus")) { std::cout << "unsupported-defined" << std::endl; continue; }
                Settings settings;
                settings.userDefines = unhex(f[2]);
                for (const std::string& u : names(f[3])) settings.userUndefs.insert(u);
                std::string code; bool ok = true;
                for (size_t i = 5; i < f.size(); ++i) ok = ok && printDir(f[i], code);
                if (!ok) { std::cout << "bad-op" << std::endl; continue; }
                std::vector<std::string> files;
                simplecpp::OutputList outputList;
                simplecpp::TokenList tokens({code.data(), code.size()}, files, "test.c", &outputList);
                Preprocessor preprocessor(tokens, settings, logger, Standards::Language::C);
                preprocessor.loadFiles(files);
                preprocessor.removeComments();
                const std::set<std::string> configs = preprocessor.getConfigs();
                std::string out = "C ";
                bool first = true;
                for (const std::string& c : configs) { if (!first) out += ','; first = false; out += hex(c); }
                out += " | L ";
                if (!wellNested(f, 5)) out += "?";
                else {
                    first = true;
                    for (const std::string& c : configs) {
                        if (!first) out += '/';
                        first = false;
                        std::string pp;
                        try { pp = preprocessor.getcode(c, files, false); } catch (const simplecpp::Output&) { pp = "void f999999"; }
                        out += regionsOf(pp);
                    }
                }
                std::cout << out << std::endl;
            } else {
                std::cout << "bad-op" << std::endl;
            }
        } catch (const std::exception& e) {
            std::cout << "exception:" << e.what() << std::endl;
        }
    }
    return 0;
}

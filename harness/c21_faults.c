/* C21 fault injection without touching /repo: several workers of ONE process-executor run die at DIFFERENT crash points.
 * LD_PRELOAD shim.
 *
 *   C21_FAULTS=<worker>:<k>:<mode>[:mid][;<worker>:<k>:<mode>[:mid]...]      mode = segv | exit | abort
 *
 * <worker> is the index of the fork() in the main process (the process executor forks one worker per file, in file order).
 * The worker dies after its k-th COMPLETE pipe message (k = 0: right after fork, before it writes anything); with `:mid` it
 * dies after the type byte of message k+1 has been written (a death INSIDE a frame).  Messages are recognised on the
 * worker's writes to a FIFO with fd > 2: one byte type, four bytes length, <length> bytes of data (cli/processexecutor.cpp,
 * PipeWriter::writeToPipe).  For a single spec this is what the hook VERIF_WORKER_FAULT does; the check compares the two.
 */
#define _GNU_SOURCE
#include <dlfcn.h>
#include <signal.h>
#include <stdlib.h>
#include <string.h>
#include <sys/stat.h>
#include <unistd.h>

static int forks;          /* in the main process: number of forks so far */
static int worker = -1;    /* in a worker: its index */
static long k = -1;
static int mode;           /* 0 segv, 1 exit(3), 2 abort */
static int mid;
static long done;          /* complete messages written */
static int state;          /* 0 expect type, 1 expect length, 2 expect data */
static unsigned int left;

static void die(void)
{
    if (mode == 1)
        _exit(3);
    signal(SIGSEGV, SIG_DFL);
    signal(SIGABRT, SIG_DFL);
    if (mode == 2)
        abort();
    raise(SIGSEGV);
    _exit(3);
}

static void arm(void)
{
    const char *env = getenv("C21_FAULTS");
    if (!env)
        return;
    char buf[1024];
    strncpy(buf, env, sizeof(buf) - 1);
    buf[sizeof(buf) - 1] = 0;
    char *save = NULL;
    for (char *spec = strtok_r(buf, ";", &save); spec; spec = strtok_r(NULL, ";", &save)) {
        char *s2 = NULL;
        char *w = strtok_r(spec, ":", &s2), *kk = strtok_r(NULL, ":", &s2), *m = strtok_r(NULL, ":", &s2), *md = strtok_r(NULL, ":", &s2);
        if (!w || !kk || !m || atoi(w) != worker)
            continue;
        k = strtol(kk, NULL, 10);
        mode = strcmp(m, "exit") == 0 ? 1 : strcmp(m, "abort") == 0 ? 2 : 0;
        mid = md && strcmp(md, "mid") == 0;
    }
    if (k == 0 && !mid)
        die();
}

pid_t fork(void)
{
    static pid_t (*real)(void);
    if (!real)
        real = (pid_t (*)(void))dlsym(RTLD_NEXT, "fork");
    const int n = forks++;
    const pid_t p = real();
    if (p == 0 && worker < 0) {
        worker = n;
        arm();
    }
    return p;
}

ssize_t write(int fd, const void *buf, size_t count)
{
    static ssize_t (*real)(int, const void *, size_t);
    if (!real)
        real = (ssize_t (*)(int, const void *, size_t))dlsym(RTLD_NEXT, "write");
    const ssize_t r = real(fd, buf, count);
    if (worker < 0 || k < 0 || fd <= 2 || r <= 0)
        return r;
    struct stat st;
    if (fstat(fd, &st) != 0 || !S_ISFIFO(st.st_mode))
        return r;
    int complete = 0;
    if (state == 0 && r == 1) {
        state = 1;
        if (mid && done == k)
            die();
    } else if (state == 1 && r == 4) {
        memcpy(&left, buf, 4);
        if (left == 0) { state = 0; complete = 1; } else state = 2;
    } else if (state == 2) {
        left = (unsigned int)r >= left ? 0 : left - (unsigned int)r;
        if (left == 0) { state = 0; complete = 1; }
    }
    if (complete && ++done == k && !mid)
        die();
    return r;
}

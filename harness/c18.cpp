// C18/C19 harness: the real cache-key and cache-file-mapping functions, one op per line.
//   usage: c18 <scratchdir>
//
//   V                              -> v <hex CPPCHECK_VERSION_STRING>
//   K <dir> <main> <rmc> <inl> <sev5> <ud> <cc> <force> <maxcfg> <level> <prod> <prem> <na> {<name> <args>}* <ns> {<line>}*
//     [<inconclusive> <unusedFunction> <missingInclude> <nu> {<undef>}* <std> <platformtype 0..6> <nl> {<library name>}*]
//                                  chdir(dir); lex <main> with simplecpp, Preprocessor::loadFiles, (inl: inlineSuppressions),
//                                  (rmc: removeComments), then the real CppCheck::calculateHash(preprocessor, main)
//                                  -> k <hash> <dump> O <getC()> <getCPP()> <platform.toString()> M <n> {<str> <line> <col> <comment>}* H <nh> {<name> <n> {tok}*}*
//                                  (dump = SuppressionList::dump(os, main) as CppCheck::calculateHash calls it; the token
//                                   lists are the ones the hash was computed over)
//   P <dir> <main> <toolinfo>      Preprocessor::calculateHash(toolinfo) alone (as test/testpreprocessor.cpp calls it) -> p <hash>
//   S <bytes>                      std::hash<std::string> of the bytes                                        -> s <hash>
//   F <n> {<path>}*                AnalyzerInformation::getFilesTxt(paths, {})                                 -> f <hex>
//   L <filestxt> <source>          write <scratch>/files.txt, AnalyzerInformation::getAnalyzerInfoFile(scratch, source, "", 0)
//                                                                                                             -> l <hex of the name relative to scratch>
//   X <hash> <xml>                 tinyxml2 parse + AnalyzerInformation::skipAnalysis                          -> x <0 reuse|1 discard|2 xml-error> <n cached findings>
// All strings are hex (common.h).
#include "common.h"
#include <simplecpp.h>
#include "settings.h"
#include "errorlogger.h"
#include "standards.h"
#include "suppressions.h"
#include "filesettings.h"
#include "analyzerinfo.h"
#include "addoninfo.h"
#include "version.h"
#include "platform.h"
#include "xml.h"
#include <fstream>
#include <functional>
#include <list>
#include <memory>
#include <unistd.h>
// Preprocessor keeps the loaded headers (mFileCache) private and has no test door: open it for this translation unit only.
// Access specifiers do not change the object layout.
#define private public
#include "preprocessor.h"
#undef private
#include "cppcheck.h"

// CppCheck declares `friend class TestCppcheck;` - the door test/testcppcheck.cpp uses
class TestCppcheck {
public:
    static std::size_t hash(const CppCheck& c, const Preprocessor& p, const std::string& filePath) {
        return c.calculateHash(p, filePath);
    }
};

namespace {
class NullLogger : public ErrorLogger {
public:
    void reportOut(const std::string&, Color) override {}
    void reportErr(const ErrorMessage&) override {}
    void reportMetric(const std::string&) override {}
};

struct AI : public AnalyzerInformation {
    using AnalyzerInformation::getFilesTxt;
    using AnalyzerInformation::skipAnalysis;
};

std::string toks(const simplecpp::TokenList& l) {
    std::string out;
    std::size_t n = 0;
    for (const simplecpp::Token* t = l.cfront(); t; t = t->next) {
        out += ' ' + hex(t->str()) + ' ' + std::to_string(t->location.line) + ' ' + std::to_string(t->location.col) + ' ' + (t->comment ? '1' : '0');
        ++n;
    }
    return std::to_string(n) + out;
}
}

int main(int argc, char** argv) {
    const std::string scratch = argc > 1 ? argv[1] : ".";
    char cwd0[4096];
    if (!getcwd(cwd0, sizeof(cwd0))) return 2;
    std::string line;
    while (std::getline(std::cin, line)) {
        const std::vector<std::string> f = fields(line);
        if (f.empty()) { std::cout << "bad-op" << std::endl; continue; }
        try {
            if (f[0] == "V") {
                std::cout << "v " << hex(CPPCHECK_VERSION_STRING) << std::endl;
            } else if (f[0] == "S" && f.size() == 2) {
                std::cout << "s " << (std::hash<std::string>{})(unhex(f[1])) << std::endl;
            } else if ((f[0] == "K" && f.size() >= 15) || (f[0] == "P" && f.size() == 4)) {
                const bool full = f[0] == "K";
                const std::string dir = unhex(f[1]), mainfile = unhex(f[2]);
                if (chdir(dir.c_str()) != 0) { std::cout << "bad-dir" << std::endl; continue; }
                Settings settings;
                Suppressions supprs;
                NullLogger logger;
                bool rmc = false, inl = false;
                if (full) {
                    rmc = f[3] == "1"; inl = f[4] == "1";
                    const std::string& sev = f[5];
                    if (sev.size() != 5) { std::cout << "bad-op" << std::endl; chdir(cwd0); continue; }
                    if (sev[0] == '1') settings.severity.enable(Severity::warning);
                    if (sev[1] == '1') settings.severity.enable(Severity::style);
                    if (sev[2] == '1') settings.severity.enable(Severity::performance);
                    if (sev[3] == '1') settings.severity.enable(Severity::portability);
                    if (sev[4] == '1') settings.severity.enable(Severity::information);
                    settings.userDefines = unhex(f[6]);
                    settings.checkConfiguration = f[7] == "1";
                    settings.force = f[8] == "1";
                    settings.maxConfigsOption = std::stoi(f[9]);
                    settings.checkLevel = static_cast<Settings::CheckLevel>(std::stoi(f[10]));
                    settings.cppcheckCfgProductName = unhex(f[11]);
                    settings.premiumArgs = unhex(f[12]);
                    std::size_t i = 13;
                    const int na = std::stoi(f.at(i++));
                    for (int k = 0; k < na; ++k) {
                        AddonInfo a;
                        a.name = unhex(f.at(i++));
                        a.args = unhex(f.at(i++));
                        settings.addonInfos.push_back(std::move(a));
                    }
                    const int ns = std::stoi(f.at(i++));
                    for (int k = 0; k < ns; ++k)
                        supprs.nomsg.addSuppressionLine(unhex(f.at(i++)));
                    settings.inlineSuppressions = inl;
                    if (i < f.size()) {     // options outside the key of the pinned commit
                        if (f.at(i++) == "1") settings.certainty.enable(Certainty::inconclusive);
                        if (f.at(i++) == "1") settings.checks.enable(Checks::unusedFunction);
                        if (f.at(i++) == "1") settings.checks.enable(Checks::missingInclude);
                        const int nu = std::stoi(f.at(i++));
                        for (int k = 0; k < nu; ++k)
                            settings.userUndefs.insert(unhex(f.at(i++)));
                        const std::string std_ = unhex(f.at(i++));
                        if (!std_.empty())
                            settings.standards.setStd(std_);
                        settings.platform.set(static_cast<Platform::Type>(std::stoi(f.at(i++))));
                        const int nl = std::stoi(f.at(i++));
                        for (int k = 0; k < nl; ++k)
                            settings.libraries.emplace_back(unhex(f.at(i++)));
                    }
                }
                std::vector<std::string> files;
                simplecpp::OutputList outputList;
                simplecpp::TokenList tokens1(mainfile, files, &outputList);
                Preprocessor preprocessor(tokens1, settings, logger, Standards::Language::C);
                (void)preprocessor.loadFiles(files);
                if (inl)
                    preprocessor.inlineSuppressions(supprs.nomsg);
                if (rmc)
                    preprocessor.removeComments();
                if (!full) {
                    std::cout << "p " << preprocessor.calculateHash(unhex(f[3])) << std::endl;
                } else {
                    CppCheck cppcheck(settings, supprs, logger, nullptr, true, {});
                    const std::size_t h = TestCppcheck::hash(cppcheck, preprocessor, mainfile);
                    std::ostringstream dump;
                    supprs.nomsg.dump(dump, mainfile);
                    std::string out = "k " + std::to_string(h) + ' ' + hex(dump.str()) + " O " + hex(settings.standards.getC()) + ' ' + hex(settings.standards.getCPP())
                                      + ' ' + hex(settings.platform.toString()) + " M " + toks(preprocessor.mTokens);
                    std::string hs;
                    std::size_t nh = 0;
                    for (const auto& fd : preprocessor.mFileCache) {
                        hs += ' ' + hex(fd->filename) + ' ' + toks(fd->tokens);
                        ++nh;
                    }
                    std::cout << out << " H " << nh << hs << std::endl;
                }
                if (chdir(cwd0) != 0) return 2;
            } else if (f[0] == "F" && f.size() >= 2) {
                std::list<std::string> paths;
                const int n = std::stoi(f[1]);
                for (int k = 0; k < n; ++k)
                    paths.push_back(unhex(f.at(2 + k)));
                std::cout << "f " << hex(AI::getFilesTxt(paths, {})) << std::endl;
            } else if (f[0] == "L" && f.size() == 3) {
                {
                    std::ofstream fout(scratch + "/files.txt", std::ios::binary | std::ios::trunc);
                    fout << unhex(f[1]);
                }
                const std::string r = AnalyzerInformation::getAnalyzerInfoFile(scratch, unhex(f[2]), "", 0);
                const std::string pre = scratch + "/";
                std::cout << "l " << hex(r.compare(0, pre.size(), pre) == 0 ? r.substr(pre.size()) : "?" + r) << std::endl;
            } else if (f[0] == "X" && f.size() == 3) {
                const std::string xml = unhex(f[2]);
                tinyxml2::XMLDocument doc;
                if (doc.Parse(xml.data(), xml.size()) != tinyxml2::XML_SUCCESS) {
                    std::cout << "x 2 0" << std::endl;
                } else {
                    std::list<ErrorMessage> errors;
                    const std::string err = AI::skipAnalysis(doc, std::stoull(f[1]), errors);
                    std::cout << "x " << (err.empty() ? 0 : 1) << ' ' << errors.size() << std::endl;
                }
            } else {
                std::cout << "bad-op" << std::endl;
            }
        } catch (const std::exception& e) {
            if (chdir(cwd0) != 0) return 2;
            std::cout << "exception " << hex(e.what()) << std::endl;
        }
    }
    return 0;
}

// C32 harness: the real ImportProject::collectArgs / parseArgs / fsSetDefines / fsSetIncludePaths /
// importCompileCommands of the working tree, driven by one op per line (see lean/Driver/C32.lean for the
// model side of the protocol).
//   split <hexcmd>                 -> ok <hexarg>* | err
//   parse <hexarg>*                -> I <list> | S <list> | D <hex> | U <list> | T <hex>
//   defs <hex>                     -> <hex>
//   simplify <hex>                 -> <hex>            (Path::simplifyPath)
//   incs <hexbase> <hexpath>*      -> <list>
//   json <hexjson>                 -> rc <0|1> errs <n> { || P <hexpath> id <n> | I .. | S .. | D .. | U .. | T .. }*
#include "common.h"

// standard and project headers first, so that the access override below touches importproject.h only
#include <algorithm>
#include <list>
#include <map>
#include <set>
#include <sstream>
#include <string>
#include <vector>
#include "config.h"
#include "filesettings.h"
#include "platform.h"
#include "standards.h"
#include "utils.h"
#include "path.h"

#define private protected          // parseArgs is a private static member
#include "importproject.h"
#undef private

class Importer : public ImportProject {
public:
    using ImportProject::collectArgs;
    using ImportProject::parseArgs;
    using ImportProject::fsSetDefines;
    using ImportProject::fsSetIncludePaths;
    using ImportProject::importCompileCommands;
};

template<class C> static std::string listStr(const C& c) {
    if (c.empty()) return ".";
    std::string out;
    for (const std::string& s : c) { if (!out.empty()) out += ","; out += hex(s); }
    return out;
}

static std::string fsStr(const FileSettings& fs) {
    return "I " + listStr(fs.includePaths) + " | S " + listStr(fs.systemIncludePaths) + " | D " + hex(fs.defines) +
           " | U " + listStr(fs.undefs) + " | T " + hex(fs.standard);
}

int main() {
    std::string line;
    while (std::getline(std::cin, line)) {
        const std::vector<std::string> f = fields(line);
        if (f.empty()) { std::cout << "bad-op" << std::endl; continue; }
        if (f[0] == "split") {
            std::vector<std::string> args;
            const std::string err = Importer::collectArgs(f.size() > 1 ? unhex(f[1]) : std::string(), args);
            if (!err.empty()) { std::cout << "err" << std::endl; continue; }
            std::string out = "ok";
            for (const std::string& a : args) out += " " + hex(a);
            std::cout << out << std::endl;
        } else if (f[0] == "parse") {
            std::vector<std::string> args;
            for (std::size_t i = 1; i < f.size(); ++i) args.push_back(unhex(f[i]));
            FileSettings fs{"a.c", Standards::Language::None, 0};
            Importer::parseArgs(fs, args);
            std::cout << fsStr(fs) << std::endl;
        } else if (f[0] == "defs") {
            FileSettings fs{"a.c", Standards::Language::None, 0};
            Importer::fsSetDefines(fs, f.size() > 1 ? unhex(f[1]) : std::string());
            std::cout << hex(fs.defines) << std::endl;
        } else if (f[0] == "simplify") {
            std::cout << hex(Path::simplifyPath(f.size() > 1 ? unhex(f[1]) : std::string())) << std::endl;
        } else if (f[0] == "incs" && f.size() >= 2) {
            FileSettings fs{"a.c", Standards::Language::None, 0};
            std::list<std::string> in;
            for (std::size_t i = 2; i < f.size(); ++i) in.push_back(unhex(f[i]));
            std::map<std::string, std::string, cppcheck::stricmp> variables;
            Importer::fsSetIncludePaths(fs, unhex(f[1]), in, variables);
            std::cout << listStr(fs.includePaths) << std::endl;
        } else if (f[0] == "json" && f.size() == 2) {
            Importer imp;
            std::istringstream is(unhex(f[1]));
            bool rc = false;
            std::string out;
            try {
                rc = imp.importCompileCommands(is);
            } catch (const std::exception& e) {
                out = " || exception";
            }
            std::string head = std::string("rc ") + (rc ? "1" : "0") + " errs " + std::to_string(imp.errors.size());
            for (const FileSettings& fs : imp.fileSettings)
                out += " || P " + hex(fs.filename()) + " id " + std::to_string(fs.file.fsFileId()) + " | " + fsStr(fs);
            std::cout << head << out << std::endl;
        } else {
            std::cout << "bad-op" << std::endl;
        }
    }
    return 0;
}

// shared helpers for the line-protocol harnesses
#pragma once
#include <string>
#include <vector>
#include <sstream>
#include <iostream>
#include <cstdio>

static inline std::string unhex(const std::string& s) {
    if (s == "-") return std::string();
    std::string out;
    auto val = [](char c) -> int { if (c >= '0' && c <= '9') return c - '0'; if (c >= 'a' && c <= 'f') return c - 'a' + 10; if (c >= 'A' && c <= 'F') return c - 'A' + 10; return 0; };
    for (size_t i = 0; i + 1 < s.size(); i += 2)
        out.push_back(static_cast<char>(val(s[i]) * 16 + val(s[i + 1])));
    return out;
}
static inline std::string hex(const std::string& s) {
    if (s.empty()) return "-";
    static const char* d = "0123456789abcdef";
    std::string out;
    for (unsigned char c : s) { out.push_back(d[c >> 4]); out.push_back(d[c & 15]); }
    return out;
}
static inline std::vector<std::string> fields(const std::string& line) {
    std::vector<std::string> f; std::istringstream is(line); std::string w;
    while (is >> w) f.push_back(w);
    return f;
}

// C16 — ThreadSanitizer harness (built with the `tsan` variant only; thorough tier / violation search).
//
// The detector itself has to be shown to work in this environment before "no report" means anything, and the phase table of
// the translator claims that SuppressionList::getUnmatchedInlineSuppressions (which reads mSuppressions without taking
// mSuppressionsSync) is harmless only because it runs after the workers were joined.  Ops (one output line each):
//   race-unguarded-reader   worker A: addSuppression x N, worker B concurrently: getUnmatchedInlineSuppressions  -> TSan must report
//   norace-guarded-reader   worker A: addSuppression x N, worker B concurrently: getSuppressions (locks)          -> no report
//   norace-main-phase       worker A: addSuppression x N, joined; then the main thread: getUnmatchedInlineSuppressions -> no report
//   methods                 lists the member functions `pair` knows:  S:<name> ... T:<name> ...
//   (the three control ops take an optional size argument)
//   pair <S|T> <a> <b> [n]  two threads call member function <a> resp. <b> of ONE shared SuppressionList (S) / TimerResults (T)
//                           in a loop.  P_impl for the member functions the phase table calls worker-phase: no TSan report.
#include "common.h"
#include "errorlogger.h"
#include "errortypes.h"
#include "filesettings.h"
#include "settings.h"
#include "standards.h"
#include "suppressions.h"
#include "timer.h"
#include "tokenlist.h"

#include <atomic>
#include <chrono>
#include <functional>
#include <map>
#include <set>
#include <sstream>
#include <thread>

static int N = 3000;

static void writer(SuppressionList &sl, std::atomic<bool> &done)
{
    for (int i = 0; i < N; ++i) {
        SuppressionList::Suppression s("id" + std::to_string(i), "f.c", i + 1);
        s.isInline = true;
        s.checked = true;
        (void)sl.addSuppression(std::move(s));
    }
    done = true;
}

struct Env {
    Settings settings;
    TokenList tokens{settings, Standards::Language::C};
    FileWithDetails file{"f.c", Standards::Language::C, 10};
    Env() {
        const char code[] = "void f ( ) { int x ; x = 1 ; }\nint g ;\n";
        tokens.createTokensFromBuffer(code, sizeof(code) - 1);
    }
};

using Fn = std::function<void (int)>;

static std::map<std::string, Fn> suppressionMethods(SuppressionList &sl, Env &env)
{
    std::map<std::string, Fn> m;
    m["addSuppression"] = [&](int i) {
        // distinct parameters on every call so that the list keeps growing (a duplicate is rejected before the push_back)
        SuppressionList::Suppression s("id" + std::to_string(i % 97), (i % 3) ? "f.c" : "", (i % 3) ? 100 + i : SuppressionList::Suppression::NO_LINE);
        if ((i % 3) == 0)
            s.symbolName = "sym" + std::to_string(i);
        s.isInline = (i % 2) == 0;
        (void)sl.addSuppression(std::move(s));
    };
    m["addSuppressionLine"] = [&](int i) {
        (void)sl.addSuppressionLine("lid" + std::to_string(i % 53) + ":g.c:" + std::to_string(i % 5 + 1));
    };
    m["addSuppressions"] = [&](int i) {
        std::list<SuppressionList::Suppression> l;
        l.emplace_back("mid" + std::to_string(i % 31), "h.c", 2);
        (void)sl.addSuppressions(std::move(l));
    };
    m["updateSuppressionState"] = [&](int i) {
        SuppressionList::Suppression s("id" + std::to_string(i % 97), "f.c", (i % 7) + 1);
        s.checked = true;
        s.matched = (i % 2) == 0;
        (void)sl.updateSuppressionState(s);
    };
    m["isSuppressed"] = [&](int i) {
        SuppressionList::ErrorMessage e;
        e.errorId = "id" + std::to_string(i % 97);
        e.setFileName("f.c");
        e.lineNumber = (i % 7) + 1;
        e.certainty = Certainty::normal;
        e.hash = 0;
        (void)sl.isSuppressed(e, (i % 2) == 0);
        const ::ErrorMessage msg({::ErrorMessage::FileLocation("f.c", (i % 7) + 1, 1)}, "f.c", Severity::error, "m", "id" + std::to_string(i % 97), Certainty::normal);
        (void)sl.isSuppressed(msg, std::set<std::string>{});
    };
    m["isSuppressedExplicitly"] = [&](int i) {
        SuppressionList::ErrorMessage e;
        e.errorId = "id" + std::to_string(i % 97);
        e.setFileName("f.c");
        e.lineNumber = (i % 7) + 1;
        e.certainty = Certainty::normal;
        e.hash = 0;
        (void)sl.isSuppressedExplicitly(e, true);
    };
    m["dump"] = [&](int) {
        std::ostringstream os;
        sl.dump(os);
    };
    m["getSuppressions"] = [&](int) {
        (void)sl.getSuppressions().size();
    };
    m["getUnmatchedLocalSuppressions"] = [&](int) {
        (void)sl.getUnmatchedLocalSuppressions(env.file).size();
    };
    m["getUnmatchedGlobalSuppressions"] = [&](int) {
        (void)sl.getUnmatchedGlobalSuppressions().size();
    };
    m["getUnmatchedInlineSuppressions"] = [&](int) {
        (void)sl.getUnmatchedInlineSuppressions().size();
    };
    m["markUnmatchedInlineSuppressionsAsChecked"] = [&](int) {
        sl.markUnmatchedInlineSuppressionsAsChecked(env.tokens);
    };
    return m;
}

static std::map<std::string, Fn> timerMethods(TimerResults &tr)
{
    std::map<std::string, Fn> m;
    m["addResults"] = [&](int i) {
        tr.addResults("t" + std::to_string(i % 13), std::chrono::milliseconds(i % 5));
    };
    m["showResults"] = [&](int) {
        tr.showResults(0, false);
    };
    m["reset"] = [&](int i) {
        if (i % 50 == 0)
            tr.reset();
    };
    m["getResults"] = [&](int) {
        (void)tr.getResults().size();
    };
    return m;
}

// both threads keep calling until each has made at least n calls (bounded by a deadline): the two loops overlap in time,
// which is what the detector needs (a reader that finishes before the writer's first store is not reported reliably, and on a
// loaded machine one thread may not be scheduled at all while the other runs a fixed number of calls)
static void runPair(const Fn &a, const Fn &b, int n)
{
    std::atomic<int> ready{0};
    std::atomic<int> finished{0};
    const auto deadline = std::chrono::steady_clock::now() + std::chrono::seconds(20);
    auto body = [&](const Fn &f) {
        ++ready;
        while (ready < 2) {}
        for (int i = 0; i < n || finished < 2; ++i) {
            f(i);
            if (i + 1 == n)
                ++finished;
            if ((i & 63) == 63 && std::chrono::steady_clock::now() > deadline)
                break;
        }
    };
    std::thread ta(body, std::cref(a));
    std::thread tb(body, std::cref(b));
    ta.join();
    tb.join();
}

int main()
{
    std::string line;
    Env env;
    while (std::getline(std::cin, line)) {
        const std::vector<std::string> f = fields(line);
        if (f.empty())
            continue;
        SuppressionList sl;
        std::atomic<bool> done{false};
        std::size_t seen = 0;
        if (f[0] != "pair" && f.size() >= 2)
            N = std::atoi(f[1].c_str());     // optional size argument of the control ops
        if (f[0] == "race-unguarded-reader" || f[0] == "norace-guarded-reader") {
            const bool guarded = f[0] == "norace-guarded-reader";
            std::thread a(writer, std::ref(sl), std::ref(done));
            std::thread b([&]() {
                while (!done) {
                    seen += guarded ? sl.getSuppressions().size() : sl.getUnmatchedInlineSuppressions().size();
                }
            });
            a.join();
            b.join();
            std::cout << "done " << sl.getSuppressions().size() << std::endl;
        } else if (f[0] == "norace-main-phase") {
            std::thread a(writer, std::ref(sl), std::ref(done));
            a.join();
            seen = sl.getUnmatchedInlineSuppressions().size();
            std::cout << "done " << seen << std::endl;
        } else if (f[0] == "methods") {
            TimerResults tr;
            std::string out;
            for (const auto &p : suppressionMethods(sl, env))
                out += " S:" + p.first;
            for (const auto &p : timerMethods(tr))
                out += " T:" + p.first;
            std::cout << "methods" << out << std::endl;
        } else if (f[0] == "pair" && (f.size() == 4 || f.size() == 5)) {
            TimerResults tr;
            const std::map<std::string, Fn> ms = (f[1] == "S") ? suppressionMethods(sl, env) : timerMethods(tr);
            const auto a = ms.find(f[2]);
            const auto b = ms.find(f[3]);
            if (a == ms.end() || b == ms.end()) {
                std::cout << "unknown-method" << std::endl;
                continue;
            }
            // some content to work on
            for (int i = 0; i < 40; ++i) {
                SuppressionList::Suppression s("id" + std::to_string(i), "f.c", (i % 7) + 1);
                s.isInline = (i % 2) == 0;
                (void)sl.addSuppression(std::move(s));
                tr.addResults("t" + std::to_string(i % 13), std::chrono::milliseconds(1));
            }
            runPair(a->second, b->second, f.size() == 5 ? std::atoi(f[4].c_str()) : 300);
            std::cout << "pair " << f[1] << ' ' << f[2] << ' ' << f[3] << " done" << std::endl;
        } else {
            std::cout << "unknown-op" << std::endl;
        }
    }
    return 0;
}

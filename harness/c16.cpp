// C16 — ThreadSanitizer controls (built with the `tsan` variant only; thorough tier).
//
// The detector itself has to be shown to work in this environment before "no report" means anything, and the phase table of
// the translator claims that SuppressionList::getUnmatchedInlineSuppressions (which reads mSuppressions without taking
// mSuppressionsSync) is harmless only because it runs after the workers were joined.  Ops (one output line each):
//   race-unguarded-reader   worker A: addSuppression x N, worker B concurrently: getUnmatchedInlineSuppressions  -> TSan must report
//   norace-guarded-reader   worker A: addSuppression x N, worker B concurrently: getSuppressions (locks)          -> no report
//   norace-main-phase       worker A: addSuppression x N, joined; then the main thread: getUnmatchedInlineSuppressions -> no report
#include "common.h"
#include "suppressions.h"

#include <atomic>
#include <thread>

static const int N = 3000;

static void writer(SuppressionList &sl, std::atomic<bool> &done)
{
    for (int i = 0; i < N; ++i) {
        SuppressionList::Suppression s("id" + std::to_string(i), "f.c", i + 1);
        s.isInline = true;
        s.checked = true;
        (void)sl.addSuppression(std::move(s));
    }
    done = true;
}

int main()
{
    std::string line;
    while (std::getline(std::cin, line)) {
        const std::vector<std::string> f = fields(line);
        if (f.empty())
            continue;
        SuppressionList sl;
        std::atomic<bool> done{false};
        std::size_t seen = 0;
        if (f[0] == "race-unguarded-reader" || f[0] == "norace-guarded-reader") {
            const bool guarded = f[0] == "norace-guarded-reader";
            std::thread a(writer, std::ref(sl), std::ref(done));
            std::thread b([&]() {
                while (!done) {
                    seen += guarded ? sl.getSuppressions().size() : sl.getUnmatchedInlineSuppressions().size();
                }
            });
            a.join();
            b.join();
            std::cout << "done " << sl.getSuppressions().size() << std::endl;
        } else if (f[0] == "norace-main-phase") {
            std::thread a(writer, std::ref(sl), std::ref(done));
            a.join();
            seen = sl.getUnmatchedInlineSuppressions().size();
            std::cout << "done " << seen << std::endl;
        } else {
            std::cout << "unknown-op" << std::endl;
        }
    }
    return 0;
}

// C09 harness: the real Tokenizer + SymbolDatabase (Tokenizer::simplifyTokens1, i.e. createSymbolDatabase +
// setValueTypeInTokenList) run in-process on a small program under Settings carrying the requested platform;
// prints the ValueType the real code attached to the root of every expression that sits under a `(void)` cast.
//
// argv[1] = directory that holds platforms/*.xml (the repo root)
// op line :  <platform> <c|cpp> <hexsource>      |      <platform> plat   (prints the Platform fields)
// output  :  ok <vt> <vt> ...     one entry per `(void)(expr)` statement in token order
//            err <what>
// <vt>    :  <type>:<sign>[*<pointer>]   type  in bool char short wchar int long llong unkint float double ldouble void other
//                                          sign  s | u | x (UNKNOWN_SIGN)
//            -                             no ValueType on the root token;   noast  no AST operand under the cast
// Platform "unspecified"/"native"/win32A/... go through Platform::set(std::string,...) exactly as the CLI does
// (cmdlineparser.cpp), file platforms through Platform::loadFromFile.
#include "common.h"
#include "token.h"
#include "tokenlist.h"
#include "tokenize.h"
#include "settings.h"
#include "platform.h"
#include "symboldatabase.h"
#include "errorlogger.h"
#include "errortypes.h"
#include "standards.h"
#include <map>
#include <memory>

namespace {
    class Quiet : public ErrorLogger {
    public:
        std::string first;
        void reportOut(const std::string&, Color) override {}
        void reportErr(const ErrorMessage& msg) override { if (first.empty()) first = msg.id; }
        void reportMetric(const std::string&) override {}
    };
}

static std::string vtstr(const ValueType* vt) {
    if (!vt) return "-";
    std::string t;
    switch (vt->type) {
    case ValueType::Type::BOOL: t = "bool"; break;
    case ValueType::Type::CHAR: t = "char"; break;
    case ValueType::Type::SHORT: t = "short"; break;
    case ValueType::Type::WCHAR_T: t = "wchar"; break;
    case ValueType::Type::INT: t = "int"; break;
    case ValueType::Type::LONG: t = "long"; break;
    case ValueType::Type::LONGLONG: t = "llong"; break;
    case ValueType::Type::UNKNOWN_INT: t = "unkint"; break;
    case ValueType::Type::FLOAT: t = "float"; break;
    case ValueType::Type::DOUBLE: t = "double"; break;
    case ValueType::Type::LONGDOUBLE: t = "ldouble"; break;
    case ValueType::Type::VOID: t = "void"; break;
    default: t = "other"; break;
    }
    t += ':';
    t += vt->sign == ValueType::Sign::SIGNED ? 's' : (vt->sign == ValueType::Sign::UNSIGNED ? 'u' : 'x');
    if (vt->pointer > 0)
        t += "*" + std::to_string(vt->pointer);
    return t;
}

int main(int argc, char** argv) {
    const std::string root = argc > 1 ? argv[1] : ".";
    std::map<std::string, std::unique_ptr<Settings>> cache;
    std::string line;
    while (std::getline(std::cin, line)) {
        std::vector<std::string> f = fields(line);
        if (f.size() == 2 && f[1] == "plat") {
            // the fields the real Platform object holds after Platform::set(name, ...)
            Settings s;
            std::string errstr;
            if (!s.platform.set(f[0], errstr, {root})) { std::cout << "err platform" << std::endl; continue; }
            const Platform& p = s.platform;
            std::cout << "charBit=" << static_cast<unsigned>(p.char_bit) << " short=" << p.sizeof_short << " int=" << p.sizeof_int << " long=" << p.sizeof_long
                      << " llong=" << p.sizeof_long_long << " charUnsigned=" << (p.defaultSign == 'u' ? 1 : 0)
                      << " bits=" << static_cast<unsigned>(p.short_bit) << "," << static_cast<unsigned>(p.int_bit) << "," << static_cast<unsigned>(p.long_bit) << "," << static_cast<unsigned>(p.long_long_bit) << std::endl;
            continue;
        }
        if (f.size() != 3 || (f[1] != "c" && f[1] != "cpp")) { std::cout << "err bad-op" << std::endl; continue; }
        auto it = cache.find(f[0]);
        if (it == cache.end()) {
            std::unique_ptr<Settings> s(new Settings);
            std::string errstr;
            if (!s->platform.set(f[0], errstr, {root}))
                s.reset();
            it = cache.emplace(f[0], std::move(s)).first;
        }
        if (!it->second) { std::cout << "err platform" << std::endl; continue; }
        const Settings& settings = *it->second;
        const bool cpp = f[1] == "cpp";
        const std::string code = unhex(f[2]);
        Quiet logger;
        std::string out;
        try {
            Tokenizer tokenizer{TokenList{settings, cpp ? Standards::Language::CPP : Standards::Language::C}, logger};
            tokenizer.list.appendFileIfNew(cpp ? "test.cpp" : "test.c");
            if (!tokenizer.list.createTokensFromBuffer(code.data(), code.size())) {
                out = "err createTokens";
            } else if (!tokenizer.simplifyTokens1("")) {
                out = "err simplifyTokens1";
            } else {
                out = "ok";
                for (const Token* t = tokenizer.tokens(); t; t = t->next()) {
                    if (t->str() == "(" && t->isCast() && t->next() && t->next()->str() == "void" && t->linkAt(0) == t->tokAt(2)) {
                        const Token* e = t->astOperand1();
                        out += " ";
                        out += e ? vtstr(e->valueType()) : std::string("noast");
                    }
                }
            }
        } catch (const InternalError& e) {
            out = "err InternalError:" + e.id;
        } catch (const std::exception&) {
            out = std::string("err exception");
        }
        std::cout << out << std::endl;
    }
    return 0;
}

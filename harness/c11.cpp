// C11 harness: the real simplecpp (externals/simplecpp) and the real Preprocessor (lib/preprocessor.cpp: createDUI via
// Preprocessor::getcode) on generated sources.
// op lines (see lean/Driver/C11.lean):
//   ev <defs> <hexexpr>              `#if <expr>` evaluated by simplecpp::preprocess (IfCond list)
//        -> "V <result>"  |  "E <class>"      class: div0 | divov | invalid | fnmacro | other:<hexmsg>
//   pp <q> <defs> <undefs> <hexsrc>  simplecpp::preprocess with DUI{defines, undefined} on the source text
//        -> "T <hex of output tokens joined by one space>"  |  "E <type>:<hexmsg>"
//   cd <hex userDefines> <undefs> <hex cfg> <hexsrc>
//                                   Settings{userDefines, userUndefs} -> Preprocessor::getcode(cfg) (createDUI + simplecpp)
//        -> "T <hex of the code, white space normalised>" | "E ..."
//   mp <q> <hexsrc> <defs>+          one raw TokenList, one simplecpp::preprocess pass per <defs> (cppcheck: one pass per configuration)
//        -> "M <T hex | E type:hexmsg> ..."   one result per pass
//   inc <hexdir> <-I dirs> <--include files> <hex main file name>      real files: #include resolution through the real Preprocessor
//        -> "T <hex of the code>" | "E ..."
//   defs / undefs: comma separated hex strings, "-" = none
#include "common.h"
#include "preprocessor.h"
#include "settings.h"
#include "errorlogger.h"
#include "standards.h"
#include <simplecpp.h>
#include <list>
#include <set>

namespace {
class NullLogger : public ErrorLogger {
public:
    std::string last;
    void reportOut(const std::string&, Color) override {}
    void reportErr(const ErrorMessage& m) override { last = m.id; }
    void reportMetric(const std::string&) override {}
};

std::vector<std::string> lst(const std::string& s) {
    std::vector<std::string> r;
    if (s == "-") return r;
    std::string cur; std::istringstream is(s);
    while (std::getline(is, cur, ',')) r.push_back(unhex(cur));
    return r;
}

const char* typeName(simplecpp::Output::Type t) {
    switch (t) {
    case simplecpp::Output::ERROR: return "error";
    case simplecpp::Output::WARNING: return "warning";
    case simplecpp::Output::MISSING_HEADER: return "missing_header";
    case simplecpp::Output::INCLUDE_NESTED_TOO_DEEPLY: return "include_nested";
    case simplecpp::Output::SYNTAX_ERROR: return "syntax";
    case simplecpp::Output::PORTABILITY_BACKSLASH: return "backslash";
    case simplecpp::Output::UNHANDLED_CHAR_ERROR: return "unhandled_char";
    case simplecpp::Output::EXPLICIT_INCLUDE_NOT_FOUND: return "include_not_found";
    case simplecpp::Output::FILE_NOT_FOUND: return "file_not_found";
    case simplecpp::Output::DUI_ERROR: return "dui";
    }
    return "?";
}

std::string joinTokens(const simplecpp::TokenList& l) {
    std::string s;
    for (const simplecpp::Token* t = l.cfront(); t; t = t->next) {
        if (!s.empty()) s += ' ';
        s += t->str();
    }
    return s;
}

// first output that is not a warning / portability note
const simplecpp::Output* firstError(const simplecpp::OutputList& ol) {
    for (const simplecpp::Output& o : ol)
        if (o.type != simplecpp::Output::WARNING && o.type != simplecpp::Output::PORTABILITY_BACKSLASH)
            return &o;
    return nullptr;
}

struct Run {
    simplecpp::OutputList outputList;
    std::list<simplecpp::IfCond> ifCond;
    std::string tokens;
};

void runSimplecpp(const std::string& code, const std::vector<std::string>& defs, const std::vector<std::string>& undefs, Run& r) {
    std::vector<std::string> files;
    simplecpp::TokenList raw({code.data(), code.size()}, files, "t.c", &r.outputList);
    raw.removeComments();
    simplecpp::DUI dui;
    for (const std::string& d : defs) dui.defines.push_back(d);
    for (const std::string& u : undefs) dui.undefined.insert(u);
    simplecpp::FileDataCache cache;
    simplecpp::TokenList out(files);
    simplecpp::preprocess(out, raw, files, cache, dui, &r.outputList, nullptr, &r.ifCond);
    r.tokens = joinTokens(out);
    simplecpp::cleanup(cache);
}

std::string normWs(const std::string& s) {
    std::string out; bool sp = false;
    for (char c : s) {
        if (c == '\x01') continue;   // Preprocessor::macroChar
        if (c == ' ' || c == '\n' || c == '\t' || c == '\r') { sp = true; continue; }
        if (sp && !out.empty()) out += ' ';
        sp = false;
        out += c;
    }
    return out;
}
}

int main() {
    std::string line;
    NullLogger logger;
    while (std::getline(std::cin, line)) {
        const std::vector<std::string> f = fields(line);
        if (f.empty()) { std::cout << "bad-op" << std::endl; continue; }
        try {
            if (f[0] == "ev" && f.size() == 3) {
                const std::string code = "#if " + unhex(f[2]) + "\nT\n#else\nF\n#endif\n";
                Run r;
                runSimplecpp(code, lst(f[1]), {}, r);
                const simplecpp::Output* e = firstError(r.outputList);
                if (e) {
                    const std::string& m = e->msg;
                    std::string cls;
                    if (m.find("division/modulo by zero") != std::string::npos) cls = "div0";
                    else if (m.find("division overflow") != std::string::npos) cls = "divov";
                    else if (m.find("invalid expression") != std::string::npos) cls = "invalid";
                    else if (m.find("undefined function-like macro") != std::string::npos) cls = "fnmacro";
                    else cls = "other:" + hex(m);
                    std::cout << "E " << cls << std::endl;
                } else if (r.ifCond.size() != 1) {
                    std::cout << "E nocond" << std::endl;
                } else {
                    const long long v = r.ifCond.front().result;
                    const bool taken = (r.tokens == "T");
                    if (taken != (v != 0)) std::cout << "E branch-mismatch" << std::endl;
                    else std::cout << "V " << v << std::endl;
                }
            } else if (f[0] == "pp" && f.size() == 5) {
                // f[1] (quirk flags) is for the Lean driver only: this harness always runs the code as it is
                Run r;
                runSimplecpp(unhex(f[4]), lst(f[2]), lst(f[3]), r);
                const simplecpp::Output* e = firstError(r.outputList);
                if (e) std::cout << "E " << typeName(e->type) << ":" << hex(e->msg) << std::endl;
                else std::cout << "T " << hex(r.tokens) << std::endl;
            } else if (f[0] == "cd" && f.size() == 5) {
                Settings settings;
                settings.userDefines = unhex(f[1]);
                for (const std::string& u : lst(f[2])) settings.userUndefs.insert(u);
                const std::string code = unhex(f[4]);
                std::vector<std::string> files;
                simplecpp::OutputList outputList;
                simplecpp::TokenList tokens({code.data(), code.size()}, files, "test.c", &outputList);
                Preprocessor preprocessor(tokens, settings, logger, Standards::Language::C);
                preprocessor.loadFiles(files);
                preprocessor.removeComments();
                logger.last.clear();
                std::string pp;
                try {
                    pp = preprocessor.getcode(unhex(f[3]), files, false);
                    if (!logger.last.empty()) std::cout << "E reported:" << hex(logger.last) << std::endl;
                    else std::cout << "T " << hex(normWs(pp)) << std::endl;
                } catch (const simplecpp::Output& o) {
                    std::cout << "E " << typeName(o.type) << ":" << hex(o.msg) << std::endl;
                }
            } else if (f[0] == "mp" && f.size() >= 4) {
                // several passes of simplecpp::preprocess over the SAME raw TokenList (as cppcheck does, one pass per configuration):
                // f[1] quirk flags (driver only), f[2] source, f[3..] the dui.defines of each pass
                const std::string code = unhex(f[2]);
                std::vector<std::string> files;
                simplecpp::OutputList rawOut;
                simplecpp::TokenList raw({code.data(), code.size()}, files, "t.c", &rawOut);
                raw.removeComments();
                std::string out = "M";
                for (size_t k = 3; k < f.size(); ++k) {
                    simplecpp::OutputList ol;
                    simplecpp::DUI dui;
                    for (const std::string& d : lst(f[k])) dui.defines.push_back(d);
                    simplecpp::FileDataCache cache;
                    simplecpp::TokenList o(files);
                    simplecpp::preprocess(o, raw, files, cache, dui, &ol, nullptr, nullptr);
                    simplecpp::cleanup(cache);
                    const simplecpp::Output* e = firstError(ol);
                    out += ' ';
                    if (e) out += std::string("E") + typeName(e->type) + ":" + hex(e->msg);
                    else out += "T" + hex(joinTokens(o));
                }
                std::cout << out << std::endl;
            } else if (f[0] == "inc" && f.size() == 5) {
                // files on disk: Settings{includePaths (-I, as cmdlineparser stores them: with trailing /), userIncludes (--include)}
                // -> Preprocessor::loadFiles (simplecpp::load) + getcode
                const std::string dir = unhex(f[1]);
                Settings settings;
                for (const std::string& i : lst(f[2])) settings.includePaths.push_back(i.back() == '/' ? i : i + "/");
                for (const std::string& i : lst(f[3])) settings.userIncludes.push_back(i);
                const std::string mainfile = dir + "/" + unhex(f[4]);
                std::vector<std::string> files;
                simplecpp::OutputList outputList;
                simplecpp::TokenList tokens(mainfile, files, &outputList);
                Preprocessor preprocessor(tokens, settings, logger, Standards::Language::C);
                preprocessor.loadFiles(files);
                preprocessor.removeComments();
                try {
                    const std::string pp = preprocessor.getcode("", files, false);
                    std::cout << "T " << hex(normWs(pp)) << std::endl;
                } catch (const simplecpp::Output& o) {
                    std::cout << "E " << typeName(o.type) << ":" << hex(o.msg) << std::endl;
                }
            } else {
                std::cout << "bad-op" << std::endl;
            }
        } catch (const std::exception& e) {
            std::cout << "exception:" << hex(e.what()) << std::endl;
        }
    }
    return 0;
}

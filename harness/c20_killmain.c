/* C20 kill model "the cppcheck MAIN process is killed, its workers survive for a while" (what `kill -9 <pid>` or the OOM
 * killer does to a -j run).  LD_PRELOAD shim, no change of /repo:
 *
 *   C20_KILLMAIN=<substring of path>:<op>:<k>      op = open | write | close
 *
 * Only WORKER processes (any process other than the exec'ed one) count their operations on files whose path contains the
 * substring (the build directory): the k-th successful open-for-writing / write / close of such a file in a worker sends
 * SIGKILL to the main process, waits until the worker has been re-parented (so the kernel has delivered the
 * PR_SET_PDEATHSIG signal the worker asked for) and lets the worker go on.  What the worker does then is cppcheck's
 * business.  Nothing is flushed on behalf of anybody.
 */
#define _GNU_SOURCE
#include <dlfcn.h>
#include <fcntl.h>
#include <signal.h>
#include <stdio.h>
#include <stdlib.h>
#include <string.h>
#include <sys/uio.h>
#include <unistd.h>

static pid_t mainpid;
static pid_t counterpid;
static long counter;
static long target = -2;
static char pat[1024];
static char opname[16];

__attribute__((constructor)) static void c20_ctor(void) { mainpid = getpid(); }

static void setup(void)
{
    if (target != -2)
        return;
    target = -1;
    const char *env = getenv("C20_KILLMAIN");
    if (!env)
        return;
    const char *c2 = strrchr(env, ':');
    if (!c2 || c2 == env)
        return;
    const char *c1 = c2 - 1;
    while (c1 > env && *c1 != ':')
        --c1;
    if (*c1 != ':' || (size_t)(c1 - env) >= sizeof(pat) || (size_t)(c2 - c1 - 1) >= sizeof(opname))
        return;
    memcpy(pat, env, (size_t)(c1 - env));
    memcpy(opname, c1 + 1, (size_t)(c2 - c1 - 1));
    target = strtol(c2 + 1, NULL, 10);
}

static int matches(int fd, int needwrite)
{
    setup();
    if (target < 0 || getpid() == mainpid)
        return 0;
    if (needwrite) {
        const int fl = fcntl(fd, F_GETFL);
        if (fl < 0 || (fl & O_ACCMODE) == O_RDONLY)
            return 0;
    }
    char link[64], path[4096];
    snprintf(link, sizeof(link), "/proc/self/fd/%d", fd);
    const ssize_t n = readlink(link, path, sizeof(path) - 1);
    if (n <= 0)
        return 0;
    path[n] = 0;
    return strstr(path, pat) != NULL;
}

static void event(const char *what)
{
    if (strcmp(opname, what) != 0)
        return;
    if (counterpid != getpid()) { /* counters are per worker */
        counterpid = getpid();
        counter = 0;
    }
    if (++counter != target)
        return;
    target = -1;
    kill(mainpid, SIGKILL);
    for (int i = 0; i < 20000 && getppid() == mainpid; ++i)
        usleep(500);
}

ssize_t write(int fd, const void *buf, size_t count)
{
    static ssize_t (*real)(int, const void *, size_t);
    if (!real)
        real = (ssize_t (*)(int, const void *, size_t))dlsym(RTLD_NEXT, "write");
    const ssize_t r = real(fd, buf, count);
    if (r > 0 && fd > 2 && matches(fd, 0))
        event("write");
    return r;
}

ssize_t writev(int fd, const struct iovec *iov, int iovcnt)
{
    static ssize_t (*real)(int, const struct iovec *, int);
    if (!real)
        real = (ssize_t (*)(int, const struct iovec *, int))dlsym(RTLD_NEXT, "writev");
    const ssize_t r = real(fd, iov, iovcnt);
    if (r > 0 && fd > 2 && matches(fd, 0))
        event("write");
    return r;
}

static FILE *open_common(const char *sym, const char *path, const char *mode)
{
    FILE *(*real)(const char *, const char *) = (FILE *(*)(const char *, const char *))dlsym(RTLD_NEXT, sym);
    FILE *f = real(path, mode);
    if (f && mode && (strchr(mode, 'w') || strchr(mode, 'a') || strchr(mode, '+')) && matches(fileno(f), 1))
        event("open");
    return f;
}

FILE *fopen(const char *path, const char *mode) { return open_common("fopen", path, mode); }
FILE *fopen64(const char *path, const char *mode) { return open_common("fopen64", path, mode); }

int fclose(FILE *f)
{
    static int (*real)(FILE *);
    if (!real)
        real = (int (*)(FILE *))dlsym(RTLD_NEXT, "fclose");
    const int hit = f && matches(fileno(f), 1);
    const int r = real(f);
    if (hit)
        event("close");
    return r;
}

// C25 harness: the answers of the real suppression lists for one finding (the model's parameters), one query per line.
//
//   q <n> <hex suppression line>*n <m> <hex exitcode-suppression line>*m <hex id> <hex file> <line> <hex symbolNames>
//        builds nomsg / nofail with SuppressionList::addSuppressionLine (as the command line parser does) and asks, for the
//        SuppressionList::ErrorMessage {id, file, line, symbolNames}, exactly the five questions CppCheckLogger::reportErr,
//        Executor::hasToLog and the proposed unmatchedSuppression patch ask:
//   ->   b <nomsg.isSuppressed(em,false)><nomsg.isSuppressed(em,true)><isSuppressedExplicitly(em,false)><..(em,true)><nofail.isSuppressed(em)> crit=<isCriticalErrorId>
//        (or "adderr <message hex>" when a line is rejected)
#include "common.h"
#include "suppressions.h"
#include "errorlogger.h"
#include "errortypes.h"

int main() {
    std::string line;
    while (std::getline(std::cin, line)) {
        const std::vector<std::string> f = fields(line);
        if (f.size() < 2 || f[0] != "q") { std::cout << "bad-op" << std::endl; continue; }
        std::size_t i = 1;
        Suppressions supprs;
        std::string err;
        const std::size_t n = std::stoul(f[i++]);
        for (std::size_t k = 0; k < n && i < f.size(); ++k) {
            const std::string e = supprs.nomsg.addSuppressionLine(unhex(f[i++]));
            if (!e.empty() && err.empty()) err = e;
        }
        const std::size_t m = i < f.size() ? std::stoul(f[i++]) : 0;
        for (std::size_t k = 0; k < m && i < f.size(); ++k) {
            const std::string e = supprs.nofail.addSuppressionLine(unhex(f[i++]));
            if (!e.empty() && err.empty()) err = e;
        }
        if (i + 4 != f.size()) { std::cout << "bad-op" << std::endl; continue; }
        if (!err.empty()) { std::cout << "adderr " << hex(err) << std::endl; continue; }
        SuppressionList::ErrorMessage em;
        em.hash = 0;
        em.errorId = unhex(f[i]);
        em.setFileName(unhex(f[i + 1]));
        em.lineNumber = std::stoi(f[i + 2]);
        em.certainty = Certainty::normal;
        em.symbolNames = unhex(f[i + 3]);
        std::string b;
        b += supprs.nomsg.isSuppressed(em, false) ? '1' : '0';
        b += supprs.nomsg.isSuppressed(em, true) ? '1' : '0';
        b += supprs.nomsg.isSuppressedExplicitly(em, false) ? '1' : '0';
        b += supprs.nomsg.isSuppressedExplicitly(em, true) ? '1' : '0';
        b += supprs.nofail.isSuppressed(em) ? '1' : '0';
        std::cout << "b " << b << " crit=" << (ErrorLogger::isCriticalErrorId(em.errorId) ? 1 : 0) << std::endl;
    }
    return 0;
}

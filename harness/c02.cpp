// C02 harness: the real Library loader on a configuration file; prints the flattened container table the analysis sees.
//
// op line :  table <hex path of a .cfg file>
// output  :  ok <id>|<startPattern hex>|<stdStringLike><stdAssociativeLike><arrayLike_indexOp><view>|<size_templateArgNo>|<fn>:<action>:<yield>,... ; ...
//            (containers sorted by id, functions sorted by name; action / yield printed as the integers of the enum classes)
//            err <what>
#include "common.h"
#include <algorithm>
#include <map>
#include <string>
#include <vector>
#include "config.h"
#include "library.h"
#include "settings.h"

static std::string table(const std::string& path)
{
    Library lib;
    const Library::Error err = lib.load(nullptr, path.c_str());
    if (err.errorcode != Library::ErrorCode::OK)
        return "err load:" + std::to_string(static_cast<int>(err.errorcode)) + ":" + hex(err.reason);
    std::vector<std::string> ids;
    for (const auto& kv : lib.containers())
        ids.push_back(kv.first);
    std::sort(ids.begin(), ids.end());
    std::string out = "ok";
    for (const std::string& id : ids) {
        const Library::Container& c = lib.containers().at(id);
        out += " " + id + "|" + hex(c.startPattern) + "|";
        out += c.stdStringLike ? '1' : '0';
        out += c.stdAssociativeLike ? '1' : '0';
        out += c.arrayLike_indexOp ? '1' : '0';
        out += c.view ? '1' : '0';
        out += "|" + std::to_string(c.size_templateArgNo) + "|";
        bool first = true;
        for (const auto& f : c.functions) {     // std::map: sorted by name
            out += (first ? "" : ",") + f.first + ":" + std::to_string(static_cast<int>(f.second.action)) + ":" + std::to_string(static_cast<int>(f.second.yield));
            first = false;
        }
        if (first)
            out += "-";
    }
    return out;
}

int main()
{
    std::string line;
    while (std::getline(std::cin, line)) {
        const std::vector<std::string> f = fields(line);
        std::string out = "bad-op";
        if (f.size() == 2 && f[0] == "table")
            out = table(unhex(f[1]));
        std::cout << out << "\n";
    }
    std::cout.flush();
    return 0;
}

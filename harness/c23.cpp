// C23 harness: the real matchglob / isValidGlobPattern / SuppressionList::* / CppCheck report gate, driven in-process.
// One op per input line, one result line per op (protocol: lean/Driver/C23.lean).  Strings are hex, "-" = empty.
// Results of ops that consult Path::simplifyPath / PathMatch::match carry the real answers after " | " as
//   sp=<raw>=<simplified>,...   fm=<pattern>=<file>=<0|1>,...
// so that the Lean model (which takes both functions as parameters) can be run with them.
//
// argv[1] = scratch directory (cwd for the few temporary files), environment C23_MUTANT=<n> selects a mutated copy
// of matchglob (used only to show that the check notices such changes; see docs/C23.md).
#include "common.h"
#include "utils.h"
#include "suppressions.h"
#include "pathmatch.h"
#include "path.h"
#include "errorlogger.h"
#include "errortypes.h"
#include "cppcheck.h"
#include "settings.h"
#include "addoninfo.h"
#include "color.h"
#include "filesettings.h"
#include "xml.h"
#include "executor.h"
#include "filesettings.h"

#include <cctype>
#include <cstdlib>
#include <cstring>
#include <fstream>
#include <functional>
#include <map>
#include <set>
#include <stack>
#include <stdexcept>
#include <unistd.h>

static int g_mutant = 0;

// ---- copy of lib/utils.cpp matchglob: fixed = true is the code after /verif/proposed/C23-matchglob.diff (/repo commit
// ---- 1cf3800), fixed = false the code before it; `mutant` selects the hand-made mutations used in docs/C23.md
static bool matchglob_copy(const std::string& pattern, const std::string& name, bool caseInsensitive, bool fixed, int mutant)
{
    const char* p = pattern.c_str();
    const char* n = name.c_str();
    std::stack<std::pair<const char*, const char*>, std::vector<std::pair<const char*, const char*>>> backtrack;

    for (;;) {
        bool matching = true;
        while (*p != '\0' && matching) {
            switch (*p) {
            case '*':
                if (fixed) {
                    // Consecutive asterisks are equivalent to a single one
                    while (p[1] == '*') {
                        p++;
                    }
                }
                // Step forward until we match the next character after *
                // (any character matches a following '?', so nothing can be skipped then)
                while (!(fixed && p[1] == '?') && *n != '\0' && *n != p[1]) {
                    n++;
                }
                if (*n != '\0') {
                    // If this isn't the last possibility, save it for later
                    if (mutant != 2)
                        backtrack.emplace(p, n);
                }
                break;
            case '?':
                if (*n != '\0') {
                    n++;
                } else {
                    matching = false;
                }
                break;
            default:
                if (*n == *p) {
                    n++;
                } else if (caseInsensitive && tolower(*n) == tolower(*p)) {
                    n++;
                } else {
                    matching = false;
                }
                break;
            }
            p++;
        }
        if (matching && (*n == '\0' || mutant == 3)) {
            return true;
        }
        if (backtrack.empty()) {
            return false;
        }
        p = backtrack.top().first;
        n = backtrack.top().second;
        backtrack.pop();
        if (mutant != 1)
            n++;
        else if (*n != '\0' && n[1] != '\0')
            n += 2;   // mutant 1: advance by two
        else
            n++;
    }
}

static std::string B(bool b) { return b ? "1" : "0"; }

struct Tables {
    std::map<std::string, std::string> sp;
    std::map<std::pair<std::string, std::string>, bool> fm;
    std::string simplify(const std::string& raw) {
        std::string s = Path::simplifyPath(raw);
        sp[raw] = s;
        return s;
    }
    void match(const std::string& pat, const std::string& file) {
        if (pat.empty()) return;
        fm[std::make_pair(pat, file)] = PathMatch::match(pat, file);
    }
    std::string str() const {
        std::string out;
        if (!sp.empty()) {
            out += " sp=";
            bool first = true;
            for (const auto& e : sp) { out += (first ? "" : ",") + hex(e.first) + "=" + hex(e.second); first = false; }
        }
        if (!fm.empty()) {
            out += " fm=";
            bool first = true;
            for (const auto& e : fm) { out += (first ? "" : ",") + hex(e.first.first) + "=" + hex(e.first.second) + "=" + B(e.second); first = false; }
        }
        return out;
    }
};

static SuppressionList::Type typeOf(int t) {
    switch (t) {
    case 0: return SuppressionList::Type::unique;
    case 1: return SuppressionList::Type::file;
    case 2: return SuppressionList::Type::block;
    case 3: return SuppressionList::Type::blockBegin;
    case 4: return SuppressionList::Type::blockEnd;
    default: return SuppressionList::Type::macro;
    }
}

// errorId fileName line lineBegin lineEnd type symbolName macroName hash thisAndNextLine isInline
static SuppressionList::Suppression readSuppr(const std::vector<std::string>& f, size_t& i) {
    SuppressionList::Suppression s;
    s.errorId = unhex(f.at(i++));
    s.fileName = unhex(f.at(i++));
    s.lineNumber = std::stoi(f.at(i++));
    s.lineBegin = std::stoi(f.at(i++));
    s.lineEnd = std::stoi(f.at(i++));
    s.type = typeOf(std::stoi(f.at(i++)));
    s.symbolName = unhex(f.at(i++));
    s.macroName = unhex(f.at(i++));
    s.hash = std::stoull(f.at(i++));
    s.thisAndNextLine = f.at(i++) == "1";
    s.isInline = f.at(i++) == "1";
    return s;
}

static std::vector<std::string> readList(const std::string& s) {
    std::vector<std::string> out;
    if (s == "_") return out;
    std::string cur;
    for (char c : s) { if (c == ',') { out.push_back(unhex(cur)); cur.clear(); } else cur.push_back(c); }
    out.push_back(unhex(cur));
    return out;
}

// hash errorId fileName line symbolNames macroNames
static SuppressionList::ErrorMessage readMsg(const std::vector<std::string>& f, size_t& i, Tables& tb) {
    SuppressionList::ErrorMessage m;
    m.hash = std::stoull(f.at(i++));
    m.errorId = unhex(f.at(i++));
    const std::string raw = unhex(f.at(i++));
    m.setFileName(raw);
    tb.simplify(raw);
    m.lineNumber = std::stoi(f.at(i++));
    m.certainty = Certainty::normal;
    m.symbolNames = unhex(f.at(i++));
    for (const std::string& x : readList(f.at(i++))) m.macroNames.insert(x);
    return m;
}

static std::string intErrClass(const std::string& what) {
    const std::string::size_type p = what.rfind(" failed - ");
    const std::string tail = p == std::string::npos ? what : what.substr(p + 10);
    if (tail.find("(pos)") != std::string::npos) return "pos";
    if (tail.find("(stoll)") != std::string::npos) return "stollrange";
    if (tail.find("(stoull)") != std::string::npos) return "stoullrange";
    if (tail.find("(invalid_argument)") != std::string::npos) return "invalid";
    if (tail.find("(limits)") != std::string::npos) return "limits";
    if (tail.find("needs to be positive") != std::string::npos) return "positive";
    if (tail.find("not an integer") != std::string::npos) return "notint";
    return "other";
}

static bool starts(const std::string& s, const std::string& prefix) { return s.compare(0, prefix.size(), prefix) == 0; }

static std::string parseErrClass(const std::string& what) {
    if (what == "filename is missing") return "nofile";
    if (starts(what, "invalid line number (")) return "line:" + intErrClass(what);
    if (starts(what, "unexpected extra '")) return "extra";
    return "other:" + hex(what);
}

// class of the error string of addSuppression; `s` may be null (then id/file glob errors are merged)
static std::string addErrClass(const std::string& err, const SuppressionList::Suppression* s) {
    if (err.empty()) return "ok";
    if (err.size() >= 14 && err.compare(err.size() - 14, 14, "already exists") == 0 && starts(err, "suppression '")) return "exists";
    if (err == "Failed to add suppression. No id.") return "noid";
    if (starts(err, "Failed to add suppression. Invalid id ")) return "invalidid";
    if (starts(err, "Failed to add suppression. Invalid glob pattern '")) {
        if (!s) return "badglob";
        return err == "Failed to add suppression. Invalid glob pattern '" + s->errorId + "'." ? "badglobid" : "badglobfile";
    }
    return "other:" + hex(err);
}

// error string of addSuppressionLine / parseFile
static std::string lineErrClass(const std::string& err) {
    if (err.empty()) return "ok";
    const std::string a = addErrClass(err, nullptr);
    if (!starts(a, "other:")) return "A:" + a;
    return "E:" + parseErrClass(err);
}

static std::string supprStr(const SuppressionList::Suppression& s) {
    return hex(s.errorId) + " " + hex(s.fileName) + " " + std::to_string(s.lineNumber) + " " + hex(s.symbolName) + " " + B(s.isPolyspace);
}

static std::string flagsStr(const std::list<SuppressionList::Suppression>& l) {
    if (l.empty()) return "_";
    std::string out;
    for (const auto& s : l) { if (!out.empty()) out += ","; out += B(s.checked) + B(s.matched); }
    return out;
}

static const char* resStr(SuppressionList::Suppression::Result r) {
    switch (r) {
    case SuppressionList::Suppression::Result::None: return "None";
    case SuppressionList::Suppression::Result::Checked: return "Checked";
    case SuppressionList::Suppression::Result::Matched: return "Matched";
    }
    return "?";
}

static std::string jsonStr(const std::string& s) {
    std::string out = "\"";
    for (unsigned char c : s) {
        if (c == '"') out += "\\\"";
        else if (c == '\\') out += "\\\\";
        else if (c < 0x20) { char buf[8]; std::snprintf(buf, sizeof(buf), "\\u%04x", c); out += buf; }
        else out.push_back(static_cast<char>(c));
    }
    return out + "\"";
}

struct GFinding {
    std::string sev, addon, errorId, file, msg;
    bool hasloc;
    int line;
    unsigned long long hash;
    // derived
    bool skip = false, internal = false, critical = false, libReports = true;
    std::string id, text, symbolNames, gfile;   // gfile = callStack.back().getfile(false): what the gate reads
};

class RecLogger : public ErrorLogger {
public:
    std::vector<ErrorMessage> msgs;
    void reportOut(const std::string& /*outmsg*/, Color /*c*/) override {}
    void reportErr(const ErrorMessage& msg) override { msgs.push_back(msg); }
    void reportMetric(const std::string& /*metric*/) override {}
    void reportProgress(const std::string& /*filename*/, const char /*stage*/[], const std::size_t /*value*/) override {}
};

// Executor::hasToLog is protected: a subclass re-exports it
class OpenExecutor : public Executor {
public:
    using Executor::Executor;
    using Executor::hasToLog;
    unsigned int check() override { return 0; }
};

static const char* const TEMPLATES[] = { "{file}:{line}:{id}:{message}", "{id}", "{file}:{id}", "{remark}", "{id}:{line}" };

static std::string opGate(const std::vector<std::string>& f) {
    size_t i = 1;
    const bool safety = f.at(i++) == "1";
    const bool dup = f.at(i++) == "1";
    const bool ug = f.at(i++) == "1";
    const int tmpl = std::stoi(f.at(i++));
    Tables tb;
    Suppressions supprs;
    std::string adds;
    std::vector<SuppressionList::Suppression> all;
    for (int which = 0; which < 2; ++which) {
        const int n = std::stoi(f.at(i++));
        for (int k = 0; k < n; ++k) {
            SuppressionList::Suppression s = readSuppr(f, i);
            all.push_back(s);
            const std::string err = (which == 0 ? supprs.nomsg : supprs.nofail).addSuppression(s);
            adds += (adds.empty() ? "" : ",") + addErrClass(err, &s);
        }
    }
    const int k = std::stoi(f.at(i++));
    Settings settings;
    settings.safety = safety;
    settings.emitDuplicates = dup;
    settings.templateFormat = TEMPLATES[tmpl % 5];
    settings.templateLocation = "";
    settings.severity.fill();
    settings.certainty.fill();
    settings.addons.emplace("fake");
    AddonInfo ai;
    ai.name = "fake";
    ai.executable = "fake-addon";
    ai.ctu = true;
    settings.addonInfos.push_back(ai);
    std::vector<GFinding> fs;
    std::string json;
    for (int j = 0; j < k; ++j) {
        GFinding g;
        g.sev = unhex(f.at(i++));
        g.addon = unhex(f.at(i++));
        g.errorId = unhex(f.at(i++));
        g.hasloc = f.at(i++) == "1";
        g.file = unhex(f.at(i++));
        g.line = std::stoi(f.at(i++));
        g.msg = unhex(f.at(i++));
        g.hash = std::stoull(f.at(i++));
        // what executeAddons builds from the JSON line
        ErrorMessage e;
        if (g.hasloc) e.callStack.emplace_back(g.file, g.line, 1);
        e.id = g.addon + "-" + g.errorId;
        e.setmsg(g.msg);
        e.severity = severityFromString(g.sev);
        if (e.severity == Severity::none || e.severity == Severity::internal) {
            if (!endsWith(e.id, "-logChecker")) g.skip = true;
            e.severity = Severity::internal;
        }
        e.file0 = "";
        e.hash = g.hash;
        g.id = e.id;
        g.internal = e.severity == Severity::internal;
        g.critical = ErrorLogger::isCriticalErrorId(e.id);
        g.libReports = settings.library.reportErrors(e.file0);
        g.text = e.toString(settings.verbose, settings.templateFormat, settings.templateLocation);
        g.symbolNames = e.symbolNames();
        g.gfile = g.hasloc ? e.callStack.back().getfile(false) : std::string();
        tb.simplify(g.hasloc ? g.gfile : e.file0);
        fs.push_back(g);
        json += "{";
        if (g.hasloc) json += "\"file\":" + jsonStr(g.file) + ",\"linenr\":" + std::to_string(g.line) + ",\"column\":1,";
        json += "\"addon\":" + jsonStr(g.addon) + ",\"errorId\":" + jsonStr(g.errorId) + ",\"message\":" + jsonStr(g.msg) +
                ",\"severity\":" + jsonStr(g.sev) + ",\"hash\":" + std::to_string(g.hash) + "}\n";
    }
    for (const auto& s : all)
        for (const auto& g : fs)
            tb.match(s.fileName, Path::simplifyPath(g.hasloc ? g.gfile : std::string()));
    RecLogger logger;
    const CppCheck::ExecuteCmdFn exec = [&json](std::string /*exe*/, std::vector<std::string> /*args*/, std::string /*redirect*/, std::string& output) {
        output = json;
        return 0;
    };
    unsigned int exitcode;
    {
        CppCheck cppcheck(settings, supprs, logger, nullptr, ug, exec);
        exitcode = cppcheck.analyseWholeProgram("", {}, {}, "");
    }
    const std::string flags1 = flagsStr(supprs.nomsg.getSuppressions());
    std::string outs;
    for (const ErrorMessage& m : logger.msgs) {
        if (m.id == "logChecker") continue;   // bookkeeping messages of the whole-program checks, not findings
        int idx = -1;
        bool asInternal = false;
        // first pass: a finding with the same severity class; second pass: a non-internal finding forwarded as internal
        for (int pass = 0; pass < 2 && idx < 0; ++pass) {
            for (size_t j = 0; j < fs.size() && idx < 0; ++j) {
                const GFinding& g = fs[j];
                if (g.skip) continue;
                if (m.id != g.id || m.hash != g.hash || m.callStack.empty() == g.hasloc) continue;
                if (g.hasloc && (m.callStack.back().getfile(false) != g.gfile || m.callStack.back().line != g.line)) continue;
                if (m.symbolNames() != g.symbolNames) continue;
                const bool mi = m.severity == Severity::internal;
                if (pass == 0 && g.internal != mi) continue;
                if (pass == 1 && !(mi && !g.internal)) continue;
                asInternal = pass == 1;
                idx = static_cast<int>(j);
            }
        }
        if (idx < 0 && std::getenv("C23_DEBUG")) std::cerr << "unmatched msg id=" << m.id << " sev=" << static_cast<int>(m.severity) << " hash=" << m.hash << " stack=" << m.callStack.size() << " msg=" << m.shortMessage() << std::endl;
        outs += (outs.empty() ? "" : ",") + std::to_string(idx) + ":" + B(asInternal) + ":" + hex(m.remark);
    }
    // second gate of a parallel run: everything the logger forwarded goes through Executor::hasToLog (same lists, same settings)
    std::string ebits;
    {
        std::list<FileWithDetails> nofiles;
        std::list<FileSettings> nofs;
        RecLogger sink;
        OpenExecutor ex(nofiles, nofs, settings, supprs, sink, nullptr);
        for (const ErrorMessage& m : logger.msgs) {
            if (m.id == "logChecker") continue;
            ebits += B(ex.hasToLog(m));
        }
    }
    const std::string flags2 = flagsStr(supprs.nomsg.getSuppressions());
    std::string derived;
    for (const GFinding& g : fs)
        derived += " " + B(g.skip) + ":" + B(g.internal) + ":" + B(g.libReports) + ":" + B(g.critical) + ":" + hex(g.text) + ":" + hex(g.id) + ":" + hex(g.symbolNames) + ":" + hex(g.gfile);
    return "A " + (adds.empty() ? std::string("_") : adds) + " O " + (outs.empty() ? std::string("_") : outs) + " X " + std::to_string(exitcode) +
           " N " + flags1 + " M " + flagsStr(supprs.nofail.getSuppressions()) + " E " + (ebits.empty() ? std::string("_") : ebits) + " N2 " + flags2 +
           " | D" + derived + tb.str();
}

static std::string step(const std::vector<std::string>& f) {
    const std::string& op = f.at(0);
    if (op == "g") {
        const bool ci = f.at(1) == "1";
        const std::string p = unhex(f.at(2)), n = unhex(f.at(3));
        const bool cur = g_mutant ? matchglob_copy(p, n, ci, true, g_mutant) : matchglob(p, n, ci);
        return "R " + B(cur) + " F " + B(matchglob_copy(p, n, ci, true, 0)) + " P " + B(matchglob_copy(p, n, ci, false, 0));
    }
    if (op == "vg")
        return B(isValidGlobPattern(unhex(f.at(1))));
    if (op == "sp")
        return hex(Path::simplifyPath(unhex(f.at(1))));
    if (op == "is") {
        size_t i = 1;
        Tables tb;
        const SuppressionList::Suppression s = readSuppr(f, i);
        const SuppressionList::ErrorMessage m = readMsg(f, i, tb);
        tb.match(s.fileName, m.getFileName());
        return std::string(resStr(s.isSuppressed(m))) + " |" + tb.str();
    }
    if (op == "ls") {
        size_t i = 1;
        Tables tb;
        const bool global = f.at(i++) == "1";
        const int n = std::stoi(f.at(i++));
        SuppressionList list;
        std::vector<SuppressionList::Suppression> all;
        std::string adds;
        for (int k = 0; k < n; ++k) {
            SuppressionList::Suppression s = readSuppr(f, i);
            all.push_back(s);
            adds += (adds.empty() ? "" : ",") + addErrClass(list.addSuppression(s), &s);
        }
        const int k = std::stoi(f.at(i++));
        std::string bits;
        for (int j = 0; j < k; ++j) {
            const bool explicitly = f.at(i++) == "x";
            const SuppressionList::ErrorMessage m = readMsg(f, i, tb);
            for (const auto& s : all) tb.match(s.fileName, m.getFileName());
            bits += B(explicitly ? list.isSuppressedExplicitly(m, global) : list.isSuppressed(m, global));
        }
        return "A " + adds + " R " + (bits.empty() ? std::string("_") : bits) + " F " + flagsStr(list.getSuppressions()) + " |" + tb.str();
    }
    if (op == "pl") {
        try {
            const SuppressionList::Suppression s = SuppressionList::parseLine(unhex(f.at(1)));
            return "ok " + supprStr(s);
        } catch (const std::runtime_error& e) {
            return "E:" + parseErrClass(e.what());
        }
    }
    if (op == "ts") {
        SuppressionList::Suppression s;
        s.errorId = unhex(f.at(1));
        s.fileName = unhex(f.at(2));
        s.lineNumber = std::stoi(f.at(3));
        s.symbolName = unhex(f.at(4));
        s.isPolyspace = f.at(5) == "1";
        const std::string t = s.toString();
        std::string back;
        try {
            back = "ok " + supprStr(SuppressionList::parseLine(t));
        } catch (const std::runtime_error& e) {
            back = "E:" + parseErrClass(e.what());
        }
        return hex(t) + " back=" + back;
    }
    if (op == "pc") {
        SuppressionList::Suppression s;
        std::string err;
        try {
            if (!s.parseComment(unhex(f.at(1)), &err)) return "0";
        } catch (const std::out_of_range&) {
            return "T";
        }
        std::string bad = "_";
        if (!err.empty()) {
            const std::string pre = "Bad suppression attribute '";
            const std::string post = "'. You can write comments in the comment after a ; or //. Valid suppression attributes; symbolName=sym";
            if (err.size() >= pre.size() + post.size() && err.compare(0, pre.size(), pre) == 0 && err.compare(err.size() - post.size(), post.size(), post) == 0)
                bad = hex(err.substr(pre.size(), err.size() - pre.size() - post.size()));
            else
                bad = "other";
        }
        return "1 " + hex(s.errorId) + " " + hex(s.symbolName) + " " + hex(s.extraComment) + " " + bad;
    }
    if (op == "pm") {
        std::string err;
        const std::vector<SuppressionList::Suppression> v = SuppressionList::parseMultiSuppressComment(unhex(f.at(1)), &err);
        if (!err.empty()) return v.empty() ? "E" : "E-nonempty";
        std::string out = std::to_string(v.size());
        for (const auto& s : v) out += " " + hex(s.errorId) + " " + hex(s.symbolName);
        return out;
    }
    if (op == "pf") {
        SuppressionList list;
        std::istringstream is(unhex(f.at(1)));
        const std::string err = list.parseFile(is);
        const auto l = list.getSuppressions();
        std::string out = lineErrClass(err) + " " + std::to_string(l.size());
        for (const auto& s : l) out += " " + supprStr(s);
        return out;
    }
    if (op == "pfp" || op == "pxp") {
        // n {errorId fileName line symbolName}*n : the file written from these suppressions (text: one toString() per line;
        // xml: <suppress><id/>[<fileName/>][<lineNumber/>][<symbolName/>]</suppress>) is parsed by the real parser
        size_t i = 1;
        const int n = std::stoi(f.at(i++));
        Tables tb;
        std::vector<SuppressionList::Suppression> v;
        for (int k = 0; k < n; ++k) {
            SuppressionList::Suppression s;
            s.errorId = unhex(f.at(i++));
            s.fileName = unhex(f.at(i++));
            s.lineNumber = std::stoi(f.at(i++));
            s.symbolName = unhex(f.at(i++));
            tb.simplify(s.fileName);
            v.push_back(s);
        }
        SuppressionList list;
        std::string cls;
        if (op == "pfp") {
            std::string data;
            for (const auto& s : v) data += s.toString() + "\n";
            std::istringstream is(data);
            cls = lineErrClass(list.parseFile(is));
        } else {
            tinyxml2::XMLDocument doc;
            tinyxml2::XMLElement* root = doc.NewElement("suppressions");
            doc.InsertEndChild(root);
            for (const auto& s : v) {
                tinyxml2::XMLElement* e = doc.NewElement("suppress");
                root->InsertEndChild(e);
                auto add = [&](const char* name, const std::string& text) {
                    tinyxml2::XMLElement* c = doc.NewElement(name);
                    if (!text.empty()) c->SetText(text.c_str());
                    e->InsertEndChild(c);
                };
                add("id", s.errorId);
                if (!s.fileName.empty()) add("fileName", s.fileName);
                if (s.lineNumber != -1) add("lineNumber", std::to_string(s.lineNumber));
                if (!s.symbolName.empty()) add("symbolName", s.symbolName);
            }
            const std::string path = "c23p-" + std::to_string(getpid()) + ".xml";
            doc.SaveFile(path.c_str());
            try {
                const std::string err = list.parseXmlFile(path.c_str());
                cls = err.empty() ? "ok" : lineErrClass(err);
            } catch (const std::runtime_error&) {
                cls = "T";
            }
            std::remove(path.c_str());
        }
        const auto l = list.getSuppressions();
        std::string out = cls + " " + std::to_string(l.size());
        for (const auto& s : l) out += " " + supprStr(s);
        return out + " |" + tb.str();
    }
    if (op == "px") {
        size_t i = 1;
        const int n = std::stoi(f.at(i++));
        tinyxml2::XMLDocument doc;
        tinyxml2::XMLElement* root = doc.NewElement("suppressions");
        doc.InsertEndChild(root);
        for (int k = 0; k < n; ++k) {
            tinyxml2::XMLElement* e = doc.NewElement(unhex(f.at(i++)).c_str());
            root->InsertEndChild(e);
            const int m = std::stoi(f.at(i++));
            for (int j = 0; j < m; ++j) {
                tinyxml2::XMLElement* c = doc.NewElement(unhex(f.at(i++)).c_str());
                const std::string text = unhex(f.at(i++));
                if (!text.empty()) c->SetText(text.c_str());
                e->InsertEndChild(c);
            }
        }
        const std::string path = "c23-" + std::to_string(getpid()) + ".xml";
        doc.SaveFile(path.c_str());
        SuppressionList list;
        std::string cls;
        try {
            const std::string err = list.parseXmlFile(path.c_str());
            if (err.empty()) cls = "ok";
            else if (err.find("expected 'suppress' element but got") != std::string::npos) cls = "E:expected";
            else if (starts(err, "unknown element '")) cls = "E:unknown";
            else if (starts(err, "invalid lineNumber '")) {
                const std::string::size_type q = err.rfind(" (");
                cls = "E:line:" + intErrClass(" failed - " + (q == std::string::npos ? err : err.substr(q)));
            }
            else if (starts(err, "invalid hash '")) cls = "E:hash";
            else cls = lineErrClass(err);
        } catch (const std::runtime_error&) {
            cls = "T";
        }
        std::remove(path.c_str());
        const auto l = list.getSuppressions();
        std::string out = cls + " " + std::to_string(l.size());
        for (const auto& s : l) out += " " + supprStr(s) + " " + std::to_string(s.hash);
        return out;
    }
    if (op == "si") {
        try {
            return "ok " + std::to_string(strToInt<int>(unhex(f.at(1))));
        } catch (const std::runtime_error& e) {
            return "E:" + intErrClass(e.what());
        }
    }
    if (op == "gt")
        return opGate(f);
    return "bad-op";
}

int main(int argc, char** argv) {
    if (argc > 1 && chdir(argv[1]) != 0) { std::cerr << "cannot chdir" << std::endl; return 2; }
    if (const char* m = std::getenv("C23_MUTANT")) g_mutant = std::atoi(m);
    std::string line;
    while (std::getline(std::cin, line)) {
        const std::vector<std::string> f = fields(line);
        std::string out;
        try {
            out = f.empty() ? "bad-op" : step(f);
        } catch (const std::exception& e) {
            out = std::string("harness-exception:") + e.what();
        }
        std::cout << out << "\n";
    }
    std::cout.flush();
    return 0;
}

// C10 harness: the real MathLib classification / conversion functions, simplecpp::characterLiteralToLL,
// ValueFlow::truncateIntValue / getMinMaxValues, Platform::set(name) and ValueType::getSizeOf, one op per line.
// argv[1] = repository root (for platforms/*.xml).  Output formats mirror lean/Driver/C10.lean.
#include "common.h"
#include "mathlib.h"
#include "errortypes.h"
#include "platform.h"
#include "settings.h"
#include "symboldatabase.h"
#include "vf_common.h"
#include "simplecpp.h"
#include "token.h"
#include "tokenlist.h"
#include "standards.h"

#include <cstring>
#include <stdexcept>

static std::string B(bool b) { return b ? "1" : "0"; }

static std::string classifyInternal(const std::string& msg) {
    if (msg.find("out_of_range") != std::string::npos) return "out_of_range";
    if (msg.find("invalid_argument") != std::string::npos) return "invalid_argument";
    if (msg.find("not completely consumed") != std::string::npos) return "not_consumed";
    if (msg.find("characterLiteralToLL") != std::string::npos) return "bad_char";
    return "?" + hex(msg);
}

static std::string classifyChar(const std::string& msg) {
    static const struct { const char* m; const char* c; } tab[] = {
        {"expected a character literal", "expected_literal"},
        {"raw single quotes and newlines not allowed in character literals", "raw_quote"},
        {"multiple characters only supported in narrow character literals", "multi_wide"},
        {"unexpected end of character literal", "unexpected_end"},
        {"expected digit", "expected_digit"},
        {"code point too large", "code_point_too_large"},
        {"surrogate code points not allowed in universal character names", "surrogate"},
        {"invalid escape sequence", "invalid_escape"},
        {"assumed UTF-8 encoded source, but sequence is invalid", "invalid_utf8"},
        {"assumed UTF-8 encoded source, but character literal ends unexpectedly", "utf8_ends"},
        {"numeric escape sequence too large", "numeric_too_large"},
        {"missing closing quote in character literal", "missing_quote"},
        {"empty character literal", "empty"},
    };
    for (const auto& e : tab)
        if (msg == e.m) return e.c;
    return "?" + hex(msg);
}

static bool ctype(const std::string& t, ValueType::Type& ty, int& ptr) {
    ptr = 0;
    if (t == "bool") ty = ValueType::Type::BOOL;
    else if (t == "char") ty = ValueType::Type::CHAR;
    else if (t == "short") ty = ValueType::Type::SHORT;
    else if (t == "wchar") ty = ValueType::Type::WCHAR_T;
    else if (t == "int") ty = ValueType::Type::INT;
    else if (t == "long") ty = ValueType::Type::LONG;
    else if (t == "longlong") ty = ValueType::Type::LONGLONG;
    else if (t == "float") ty = ValueType::Type::FLOAT;
    else if (t == "double") ty = ValueType::Type::DOUBLE;
    else if (t == "longdouble") ty = ValueType::Type::LONGDOUBLE;
    else if (t == "pointer") { ty = ValueType::Type::INT; ptr = 1; }
    else return false;
    return true;
}

static bool loadPlatform(Platform& p, const std::string& name, const std::string& repo) {
    std::string err;
    return p.set(name, err, {repo});
}

static std::string mm(const ValueType& vt, const Platform& p) {
    MathLib::bigint lo = 0, hi = 0;
    if (!ValueFlow::getMinMaxValues(&vt, p, lo, hi)) return "none";
    return std::to_string(lo) + "," + std::to_string(hi);
}

int main(int argc, char** argv) {
    const std::string repo = argc > 1 ? argv[1] : "/repo";
    std::string line;
    while (std::getline(std::cin, line)) {
        const std::vector<std::string> f = fields(line);
        if (f.empty()) { std::cout << "bad-op" << std::endl; continue; }
        const std::string& op = f[0];
        if (op == "cls" && f.size() == 2) {
            const std::string s = unhex(f[1]);
            std::cout << "dec=" << B(MathLib::isDec(s)) << " hex=" << B(MathLib::isIntHex(s)) << " oct=" << B(MathLib::isOct(s))
                      << " bin=" << B(MathLib::isBin(s)) << " int=" << B(MathLib::isInt(s)) << " dflt=" << B(MathLib::isDecimalFloat(s))
                      << " hflt=" << B(MathLib::isFloatHex(s)) << " flt=" << B(MathLib::isFloat(s)) << " neg=" << B(MathLib::isNegative(s))
                      << " pos=" << B(MathLib::isPositive(s)) << " chr=" << B(isCharLiteral(s))
                      << " sfx=" << B(MathLib::isValidIntegerSuffix(s, true)) << " sfxn=" << B(MathLib::isValidIntegerSuffix(s, false)) << std::endl;
        } else if (op == "big" && f.size() == 2) {
            const std::string s = unhex(f[1]);
            // the float branch is reached exactly when the three integer classifiers before it fail and isFloat holds;
            // its VALUE (a double conversion, which may also throw for exponents out of range) is outside the model
            const bool isfloat = !MathLib::isIntHex(s) && !MathLib::isOct(s) && !MathLib::isBin(s) && MathLib::isFloat(s);
            std::string b, u;
            try { const MathLib::bigint v = MathLib::toBigNumber(s); b = isfloat ? "float" : "ok:" + std::to_string(v); }
            catch (const InternalError& e) { b = isfloat ? "float" : "err:" + classifyInternal(e.errorMessage); }
            try { const MathLib::biguint v = MathLib::toBigUNumber(s); u = isfloat ? "float" : "ok:" + std::to_string(v); }
            catch (const InternalError& e) { u = isfloat ? "float" : "err:" + classifyInternal(e.errorMessage); }
            std::cout << "B " << b << " | U " << u << std::endl;
        } else if (op == "chr" && f.size() == 2) {
            const std::string s = unhex(f[1]);
            try { const long long v = simplecpp::characterLiteralToLL(s); std::cout << "ok:" << v << std::endl; }
            catch (const std::runtime_error& e) { std::cout << "err:" << classifyChar(e.what()) << std::endl; }
        } else if (op == "cch" && f.size() == 2) {
            const std::string s = unhex(f[1]);
            if (s.empty()) { std::cout << "notchar" << std::endl; continue; }
            Settings settings;
            TokenList list{settings, Standards::Language::CPP};
            list.addtoken(s, 1, 1, 0);
            const Token* tok = list.front();
            if (!tok || tok->tokType() != Token::eChar) std::cout << "notchar" << std::endl;
            else std::cout << "cchar=" << B(tok->isCChar()) << " multi=" << B(tok->isCMultiChar()) << std::endl;
        } else if (op == "sfx" && f.size() == 2) {
            std::cout << hex(MathLib::getSuffix(unhex(f[1]))) << std::endl;
        } else if (op == "trunc" && f.size() == 4) {
            const MathLib::bigint v = std::stoll(f[1]);
            const size_t n = std::stoul(f[2]);
            if (n > 8) { std::cout << "undefined" << std::endl; continue; }   // shift count underflows in the C++
            std::cout << ValueFlow::truncateIntValue(v, n, f[3] == "1" ? ValueType::Sign::SIGNED : ValueType::Sign::UNSIGNED) << std::endl;
        } else if (op == "minmax" && f.size() == 3) {
            Platform p;
            p.int_bit = static_cast<std::uint8_t>(std::stoul(f[1]));
            const ValueType vt(f[2] == "1" ? ValueType::Sign::UNSIGNED : ValueType::Sign::SIGNED, ValueType::Type::INT, 0);
            MathLib::bigint lo = 0, hi = 0;
            if (ValueFlow::getMinMaxValues(&vt, p, lo, hi)) std::cout << lo << " " << hi << std::endl;
            else std::cout << "none" << std::endl;
        } else if (op == "plat" && f.size() == 2) {
            Platform p;
            if (!loadPlatform(p, f[1], repo)) { std::cout << "unknown-platform" << std::endl; continue; }
            std::cout << "cb=" << int(p.char_bit) << " bool=" << p.sizeof_bool << " short=" << p.sizeof_short << " int=" << p.sizeof_int
                      << " long=" << p.sizeof_long << " llong=" << p.sizeof_long_long << " float=" << p.sizeof_float
                      << " double=" << p.sizeof_double << " ldouble=" << p.sizeof_long_double << " wchar=" << p.sizeof_wchar_t
                      << " size_t=" << p.sizeof_size_t << " ptr=" << p.sizeof_pointer << " sign=" << p.defaultSign
                      << " win=" << B(p.windows) << " bits=" << int(p.short_bit) << "," << int(p.int_bit) << "," << int(p.long_bit)
                      << "," << int(p.long_long_bit) << std::endl;
        } else if (op == "sizeof" && f.size() == 3) {
            Settings settings;
            ValueType::Type ty; int ptr;
            if (!loadPlatform(settings.platform, f[1], repo) || !ctype(f[2], ty, ptr)) { std::cout << "bad-op" << std::endl; continue; }
            const ValueType vs(ValueType::Sign::SIGNED, ty, ptr), vu(ValueType::Sign::UNSIGNED, ty, ptr);
            std::cout << vs.getSizeOf(settings, ValueType::Accuracy::ExactOrZero, ValueType::SizeOf::Pointer)
                      << " s:" << mm(vs, settings.platform) << " u:" << mm(vu, settings.platform) << std::endl;
        } else {
            std::cout << "bad-op" << std::endl;
        }
    }
    return 0;
}

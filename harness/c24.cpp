// C24 harness: one real SuppressionList driven through op sequences; after every op the full flag state is printed.
//
// A suppression travels as
//   <hex id>:<hex file>:<line>:<hex symbol>:<hash>:<thisAndNextLine>:<type 0..5>:<lineBegin>:<lineEnd>:<column>:<inline>:<polyspace>:<checked>:<matched>:<hex macroName>
// Every answer is   P <parameters> | <result> | <state>
// where <parameters> are the answers of code the C24 model takes as parameters (Suppression::isSuppressed verdicts,
// PathMatch::match, matchglob, isValidGlobPattern), computed with the real functions on the current list.
//
//   new
//   add <suppr>                        SuppressionList::addSuppression                     P g=<globsOk> | ok|exists|noid|invalidid|invalidglob
//   upd <suppr>                        SuppressionList::updateSuppressionState             P - | 0|1
//   sup <global> <id> <file> <line> <symbols> <hash>     SuppressionList::isSuppressed(em, global)      P vs=<N|C|M per entry> | 0|1
//   supx <global> <id> <file> <line> <symbols> <hash>    SuppressionList::isSuppressedExplicitly          P vs=… | 0|1
//   werr <showGlobal> <id> <file> <line> <symbols> <hash>   a worker's CppCheckLogger::reportErr (local call, then the call over all)   P vs=…;vs2=… | 0|1
//   mark <n> (<file> <line>)*n         markUnmatchedInlineSuppressionsAsChecked(TokenList with one token per location)   P - | -
//   recv <suppr>                       ProcessExecutor::handleRead on a pipe carrying REPORT_SUPPR(_INLINE) built from the
//                                      suppression exactly as PipeWriter::suppressionToString does             P g=<globsOk of the parsed line> | -
//   thread                             the propagation loop of ThreadData::check (12 lines repeated here: it lives in a class local
//                                      to threadexecutor.cpp)                                                 P - | -
//   wire <skipHash>                    per entry a worker sends (inline || checked): parseLine(toString) + the fields handleRead sets   P - | <suppr>*
//   ul <file> | ug | ui                getUnmatchedLocal/Global/InlineSuppressions         P pm=<bits> | <suppr>*
//   report <inline> <k> <file>*k <n> <filter>*n   CppCheckExecutor::reportUnmatchedSuppressions      P pm=<bits>,…;f=<bits> | <polyspace>:<id>:<file>:<line>:<col>*
#include <string>
#include <vector>
#include <list>
#include <set>
#include <sstream>
#include <iostream>
#include <cstring>
#include <unistd.h>
#include "common.h"
#include "suppressions.h"
#include "errorlogger.h"
#include "errortypes.h"
#include "settings.h"
#include "filesettings.h"
#include "pathmatch.h"
#include "tokenlist.h"
#include "token.h"
#include "utils.h"
#include "standards.h"
#include "cppcheckexecutor.h"
#define private public
#include "processexecutor.h"
#undef private

using S = SuppressionList::Suppression;

static std::vector<std::string> splitc(const std::string& s, char c) {
    std::vector<std::string> r; std::string cur;
    for (char ch : s) { if (ch == c) { r.push_back(cur); cur.clear(); } else cur.push_back(ch); }
    r.push_back(cur);
    return r;
}

static bool parseSuppr(const std::string& t, S& s) {
    const std::vector<std::string> p = splitc(t, ':');
    if (p.size() != 15) return false;
    s.errorId = unhex(p[0]); s.fileName = unhex(p[1]); s.lineNumber = std::stoi(p[2]); s.symbolName = unhex(p[3]);
    s.hash = std::stoull(p[4]); s.thisAndNextLine = p[5] == "1";
    s.type = static_cast<SuppressionList::Type>(std::stoi(p[6]));
    s.lineBegin = std::stoi(p[7]); s.lineEnd = std::stoi(p[8]); s.column = std::stoi(p[9]);
    s.isInline = p[10] == "1"; s.isPolyspace = p[11] == "1"; s.checked = p[12] == "1"; s.matched = p[13] == "1"; s.macroName = unhex(p[14]);
    return true;
}

static std::string supprStr(const S& s) {
    std::ostringstream o;
    o << hex(s.errorId) << ':' << hex(s.fileName) << ':' << s.lineNumber << ':' << hex(s.symbolName) << ':' << s.hash << ':' << (s.thisAndNextLine ? 1 : 0)
      << ':' << static_cast<int>(s.type) << ':' << s.lineBegin << ':' << s.lineEnd << ':' << s.column << ':' << (s.isInline ? 1 : 0) << ':' << (s.isPolyspace ? 1 : 0)
      << ':' << (s.checked ? 1 : 0) << ':' << (s.matched ? 1 : 0) << ':' << hex(s.macroName);
    return o.str();
}

static std::string listStr(const std::list<S>& l) {
    if (l.empty()) return "-";
    std::string r;
    for (const S& s : l) { if (!r.empty()) r += ' '; r += supprStr(s); }
    return r;
}

namespace {
    class Collect : public ErrorLogger {
    public:
        std::vector<ErrorMessage> msgs;
        void reportOut(const std::string&, Color) override {}
        void reportErr(const ErrorMessage& m) override { msgs.push_back(m); }
        void reportMetric(const std::string&) override {}
    };
    struct Exec : public CppCheckExecutor {
        using CppCheckExecutor::reportUnmatchedSuppressions;
    };
}

static void answer(const std::string& params, const std::string& result, SuppressionList& l) {
    std::cout << "P " << params << " | " << result << " | " << listStr(l.getSuppressions()) << std::endl;
}

static SuppressionList::ErrorMessage mkmsg(const std::vector<std::string>& f, std::size_t i) {
    SuppressionList::ErrorMessage em;
    em.errorId = unhex(f[i]); em.setFileName(unhex(f[i + 1])); em.lineNumber = std::stoi(f[i + 2]);
    em.symbolNames = unhex(f[i + 3]); em.hash = std::stoull(f[i + 4]); em.certainty = Certainty::normal;
    return em;
}

static std::string verdicts(const SuppressionList& l, const SuppressionList::ErrorMessage& em) {
    std::string v;
    for (const S& s : l.getSuppressions()) {
        // the model's hypothesis FlagFree: the verdict does not read the flags
        S t = s; t.checked = !s.checked; t.matched = !s.matched;
        if (t.isSuppressed(em) != s.isSuppressed(em)) { v += 'F'; continue; }
        switch (s.isSuppressed(em)) {
        case S::Result::None: v += 'N'; break;
        case S::Result::Checked: v += 'C'; break;
        case S::Result::Matched: v += 'M'; break;
        }
    }
    return v.empty() ? "-" : v;
}

int main() {
    Suppressions* supprs = new Suppressions;
    std::string line;
    while (std::getline(std::cin, line)) {
        const std::vector<std::string> f = fields(line);
        if (f.empty()) { std::cout << "bad-op" << std::endl; continue; }
        SuppressionList& L = supprs->nomsg;
        const std::string& op = f[0];
        if (op == "new") {
            delete supprs; supprs = new Suppressions;
            std::cout << "P - | - | -" << std::endl;
        } else if (op == "add" && f.size() == 2) {
            S s; if (!parseSuppr(f[1], s)) { std::cout << "bad-op" << std::endl; continue; }
            const bool g = isValidGlobPattern(s.errorId) && isValidGlobPattern(s.fileName);
            const std::string e = L.addSuppression(s);
            std::string w = "other";
            if (e.empty()) w = "ok";
            else if (e.find("already exists") != std::string::npos) w = "exists";
            else if (e.find("No id") != std::string::npos) w = "noid";
            else if (e.find("Invalid id") != std::string::npos) w = "invalidid";
            else if (e.find("Invalid glob") != std::string::npos) w = "invalidglob";
            answer(std::string("g=") + (g ? "1" : "0"), w, L);
        } else if (op == "upd" && f.size() == 2) {
            S s; if (!parseSuppr(f[1], s)) { std::cout << "bad-op" << std::endl; continue; }
            answer("-", L.updateSuppressionState(s) ? "1" : "0", L);
        } else if ((op == "sup" || op == "supx") && f.size() == 7) {
            const bool global = f[1] == "1";
            const SuppressionList::ErrorMessage em = mkmsg(f, 2);
            const std::string v = verdicts(L, em);
            const bool r = op == "sup" ? L.isSuppressed(em, global) : L.isSuppressedExplicitly(em, global);
            answer("vs=" + v, r ? "1" : "0", L);
        } else if (op == "werr" && f.size() == 7) {
            // what CppCheckLogger::reportErr of a worker (mUseGlobalSuppressions == false) does to the list: the call over the local
            // suppressions, then - for a finding none of them hides (suppressedLater / exit code test) and, since cc259cb, also for a
            // hidden one - the call over all suppressions.  f[1] = the form of the tree (extracted by the check).
            const bool showGlobal = f[1] == "1";
            const SuppressionList::ErrorMessage em = mkmsg(f, 2);
            const std::string v1 = verdicts(L, em);
            const bool r = L.isSuppressed(em, false);
            std::string v2 = "-";
            if (!r || showGlobal) {
                v2 = verdicts(L, em);
                (void)L.isSuppressed(em, true);
            }
            answer("vs=" + v1 + ";vs2=" + v2, r ? "1" : "0", L);
        } else if (op == "mark" && f.size() >= 2) {
            const std::size_t n = std::stoul(f[1]);
            if (f.size() != 2 + 2 * n) { std::cout << "bad-op" << std::endl; continue; }
            const Settings settings;
            TokenList list(settings, Standards::Language::C);
            for (std::size_t k = 0; k < n; ++k) {
                const int idx = list.appendFileIfNew(unhex(f[2 + 2 * k]));
                list.addtoken("x", std::stoi(f[3 + 2 * k]), 1, idx);
            }
            L.markUnmatchedInlineSuppressionsAsChecked(list);
            answer("-", "-", L);
        } else if (op == "recv" && f.size() == 2) {
            S s; if (!parseSuppr(f[1], s)) { std::cout << "bad-op" << std::endl; continue; }
            // PipeWriter::suppressionToString
            std::string str = s.toString();
            str += ";"; str += std::to_string(s.column); str += ";"; str += s.checked ? "1" : "0"; str += ";"; str += s.matched ? "1" : "0"; str += ";"; str += s.extraComment;
            bool g = false;
            try {
                const S parsed = SuppressionList::parseLine(splitc(str, ';')[0]);
                g = isValidGlobPattern(parsed.errorId) && isValidGlobPattern(parsed.fileName);
            } catch (const std::exception&) {}
            int fd[2];
            if (pipe(fd) != 0) { std::cout << "bad-op" << std::endl; continue; }
            const char type = s.isInline ? '3' : '4';
            const unsigned int len = static_cast<unsigned int>(str.size());
            bool okw = write(fd[1], &type, 1) == 1 && write(fd[1], &len, sizeof(len)) == static_cast<ssize_t>(sizeof(len)) &&
                       (len == 0 || write(fd[1], str.data(), len) == static_cast<ssize_t>(len));
            close(fd[1]);
            if (!okw) { close(fd[0]); std::cout << "bad-op" << std::endl; continue; }
            Settings settings; settings.jobs = 2;
            std::list<FileWithDetails> files; std::list<FileSettings> fs;
            Collect logger;
            ProcessExecutor ex(files, fs, settings, *supprs, logger, nullptr, nullptr);
            unsigned int result = 0;
            std::string res = "-";
            try {
                ex.handleRead(fd[0], result, "harness");
            } catch (const std::exception& e) {
                res = "throw";
            }
            close(fd[0]);
            answer(std::string("g=") + (g ? "1" : "0"), res, L);
        } else if (op == "thread") {
            // cli/threadexecutor.cpp, ThreadData::check, after fileChecker.check(...)
            for (const auto& suppr : L.getSuppressions()) {
                if (suppr.isInline) {
                    const std::string err = L.addSuppression(suppr);
                    if (!err.empty())
                        L.updateSuppressionState(suppr);
                    continue;
                }
                if (!suppr.isLocal()) {
                    L.updateSuppressionState(suppr);
                    continue;
                }
            }
            answer("-", "-", L);
        } else if (op == "wire" && f.size() == 2) {
            const bool skipHash = f[1] == "1";      // which of the two forms of PipeWriter::writeSuppr the tree has (extracted by the check)
            std::list<S> sent;
            for (const auto& suppr : L.getSuppressions()) {
                if (skipHash && suppr.hash > 0)
                    continue;
                if (!(suppr.isInline || suppr.checked))      // PipeWriter::writeSuppr
                    continue;
                try {
                    S p = SuppressionList::parseLine(suppr.toString());     // handleRead: parts[0]
                    p.isInline = suppr.isInline; p.column = suppr.column; p.checked = suppr.checked; p.matched = suppr.matched;
                    sent.push_back(p);
                } catch (const std::exception&) {
                    S bad; bad.errorId = "PARSE-ERROR"; sent.push_back(bad);
                }
            }
            answer("-", listStr(sent), L);
        } else if (op == "ul" && f.size() == 2) {
            const std::string file = unhex(f[1]);
            std::string pm;
            for (const S& s : L.getSuppressions()) pm += PathMatch::match(s.fileName, file) ? '1' : '0';
            const FileWithDetails fwd(file, Standards::Language::C, 0);
            answer("pm=" + (pm.empty() ? std::string("-") : pm), listStr(L.getUnmatchedLocalSuppressions(fwd)), L);
        } else if (op == "ug") {
            answer("-", listStr(L.getUnmatchedGlobalSuppressions()), L);
        } else if (op == "ui") {
            answer("-", listStr(L.getUnmatchedInlineSuppressions()), L);
        } else if (op == "report" && f.size() >= 4) {
            Settings settings;
            settings.inlineSuppressions = f[1] == "1";
            const std::size_t k = std::stoul(f[2]);
            if (f.size() < 4 + k) { std::cout << "bad-op" << std::endl; continue; }
            std::list<FileWithDetails> files;
            std::string params = "pm=";
            const std::list<S> cur = L.getSuppressions();
            for (std::size_t j = 0; j < k; ++j) {
                const std::string file = unhex(f[3 + j]);
                files.emplace_back(file, Standards::Language::C, 0);
                std::string pm;
                for (const S& s : cur) pm += PathMatch::match(s.fileName, files.back().spath()) ? '1' : '0';
                if (j) params += ',';
                params += pm.empty() ? "-" : pm;
            }
            if (k == 0) params += "-";
            const std::size_t n = std::stoul(f[3 + k]);
            if (f.size() != 4 + k + n) { std::cout << "bad-op" << std::endl; continue; }
            for (std::size_t j = 0; j < n; ++j) settings.unmatchedSuppressionFilters.push_back(unhex(f[4 + k + j]));
            std::string fb;
            for (const S& s : cur) {
                bool hit = false;
                for (const std::string& flt : settings.unmatchedSuppressionFilters) hit = hit || matchglob(flt, s.errorId);
                fb += hit ? '1' : '0';
            }
            params += ";f=" + (fb.empty() ? std::string("-") : fb);
            Collect logger;
            const std::list<FileSettings> fsl;
            const bool err = Exec::reportUnmatchedSuppressions(settings, L, files, fsl, logger);
            std::string out;
            for (const ErrorMessage& m : logger.msgs) {
                if (!out.empty()) out += ' ';
                const std::string prefix = "Unmatched suppression: ";
                const std::string sm = m.shortMessage();
                const std::string id = sm.compare(0, prefix.size(), prefix) == 0 ? sm.substr(prefix.size()) : "?" + sm;
                std::ostringstream o;
                o << (m.id == "unmatchedPolyspaceSuppression" ? 1 : (m.id == "unmatchedSuppression" ? 0 : 9)) << ':' << hex(id) << ':';
                if (m.callStack.empty()) o << "-:0:0";
                else o << hex(m.callStack.back().getfile(false)) << ':' << m.callStack.back().line << ':' << m.callStack.back().column;
                out += o.str();
            }
            if (out.empty()) out = "-";
            answer(params, std::string(err ? "1" : "0") + " " + out, L);
        } else {
            std::cout << "bad-op" << std::endl;
        }
    }
    return 0;
}

// C30 harness: the real Library loader / argument-validity functions, one op per line.
//
//   I <hexvalid> <x>            load <def><function name="f"><arg nr="1"><valid>..</valid></arg></function></def>,
//                               tokenise the one-call program "f(a);" and call Library::isIntArgValid(ftok,1,x)
//                               ->  load=<errorcode> [r=0|1|E]         (E = InternalError thrown)
//   F <hexvalid> <m> <e>        same with Library::isFloatArgValid(ftok,1,ldexp(m,e))
//   V <hexvalid>                Library::isCompliantValidationExpression            -> c=0|1
//   T <hexvalid>                tokens of valid+"," after TokenList::createTokensFromBuffer and the "- %num%" merge
//                               (the 6 lines of the static gettokenlistfromvalid are repeated here; diagnostic tie only)
//                               ->  t <hex>:<isNumber> ...
//   N <hexstr>                  MathLib on one string: isInt isFloat toBigNumber toDoubleNumber toString(toDouble)
//                               ->  n int=<0|1> flt=<0|1> big=<v|E> dbl=<m>p<e>|E str=<hex|E>
//   S <m> <e>                   MathLib::toString(ldexp(m,e)) -> s <hex>
//   C <x>                       static_cast<double>(int64 x)  -> d <m>p<e>
//   D <ncall> <fmt> {<nr>:<flags>}*   decision tables. fmt: 0 none, 1 <formatstr scan="true"/>, 2 <formatstr/> ;
//                               nr: number | any | variadic ; flags: letters b(not-bool) n(not-null) u(not-uninit) 1/2/3 (not-uninit indirect=k)
//                               o(default="0" => optional) f(<formatstr/> arg) v(<valid>0:</valid>)
//                               call program f(a1,..,a_ncall);
//                               ->  load=<code> lib=<0|1> then per call argument k=1..ncall: k:<null><bool><uninit0><uninit1><uninit2><hasvalid>
//   X <hexxml> <x>              load an arbitrary XML document, then as I on function f arg 1 (load robustness stream)
#include "common.h"
#include "library.h"
#include "mathlib.h"
#include "token.h"
#include "tokenlist.h"
#include "settings.h"
#include "errortypes.h"
#include "standards.h"
#include "xml.h"
#include <cmath>
#include <cstdint>
#include <cstring>
#include <limits>

static std::string xmlesc(const std::string& s) {
    std::string o;
    for (char c : s) {
        if (c == '<') o += "&lt;";
        else if (c == '>') o += "&gt;";
        else if (c == '&') o += "&amp;";
        else o.push_back(c);
    }
    return o;
}

static std::string dblstr(double d) {
    if (std::isnan(d)) return "nan";
    if (std::isinf(d)) return d > 0 ? "inf" : "-inf";
    if (d == 0) return "0p0";
    int ex = 0;
    const double fr = std::frexp(d, &ex);            // d = fr * 2^ex, 0.5 <= |fr| < 1
    long long m = static_cast<long long>(std::ldexp(fr, 53));   // exact
    int e = ex - 53;
    while (m % 2 == 0) { m /= 2; ++e; }
    return std::to_string(m) + "p" + std::to_string(e);
}

// Library declares `friend struct LibraryHelper; // for testing` - the same door test/helpers.cpp uses
struct LibraryHelper {
    static Library::Error loadxmldoc(Library& lib, const tinyxml2::XMLDocument& doc) { return lib.load(doc); }
};

static int loadDoc(Library& lib, const std::string& xml) {
    tinyxml2::XMLDocument doc;
    if (doc.Parse(xml.c_str(), xml.size()) != tinyxml2::XML_SUCCESS)
        return -1;
    if (!doc.FirstChildElement())
        return -2;   // Library::load would call doc.PrintError() (writes to stdout) and return BAD_XML
    return static_cast<int>(LibraryHelper::loadxmldoc(lib, doc).errorcode);
}

struct Call {
    Settings settings;
    TokenList list;
    explicit Call(const std::string& code) : list{settings, Standards::Language::C} {
        list.createTokensFromBuffer(code.data(), code.size());
        if (list.front() && list.front()->next())
            list.front()->next()->astOperand1(list.front());
    }
};

int main() {
    std::string line;
    while (std::getline(std::cin, line)) {
        std::vector<std::string> f = fields(line);
        std::string out;
        try {
            if (f.empty()) { out = "bad-op"; }
            else if ((f[0] == "I" && f.size() == 3) || (f[0] == "F" && f.size() == 4) || (f[0] == "X" && f.size() == 3)) {
                const std::string v = unhex(f[1]);
                const std::string xml = f[0] == "X" ? v
                    : "<?xml version=\"1.0\"?>\n<def>\n<function name=\"f\"><arg nr=\"1\"><valid>" + xmlesc(v) + "</valid></arg></function>\n</def>";
                Library lib;
                const int code = loadDoc(lib, xml);
                out = "load=" + std::to_string(code);
                if (code == 0) {
                    Call call("f(a);");
                    std::string r;
                    try {
                        if (f[0] == "F") {
                            const double x = std::ldexp(static_cast<double>(std::stoll(f[2])), std::stoi(f[3]));
                            r = lib.isFloatArgValid(call.list.front(), 1, x, call.settings) ? "1" : "0";
                        } else {
                            const long long x = std::stoll(f[2]);
                            r = lib.isIntArgValid(call.list.front(), 1, x, call.settings) ? "1" : "0";
                        }
                    } catch (const InternalError&) { r = "E"; }
                    out += " r=" + r;
                }
            }
            else if (f[0] == "V" && f.size() == 2) {
                const std::string v = unhex(f[1]);
                out = std::string("c=") + (Library::isCompliantValidationExpression(v.c_str()) ? "1" : "0");
            }
            else if (f[0] == "T" && f.size() == 2) {
                const std::string v = unhex(f[1]);
                Settings settings;
                TokenList tokenList(settings, Standards::Language::C);
                const std::string str(v + ',');
                tokenList.createTokensFromBuffer(str.data(), str.size());
                for (Token *tok = tokenList.front(); tok; tok = tok->next()) {
                    if (tok->str() == "-" && tok->next() && tok->next()->isNumber()) {
                        tok->str("-" + tok->strAt(1));
                        tok->deleteNext();
                    }
                }
                out = "t";
                for (const Token* tok = tokenList.front(); tok; tok = tok->next())
                    out += " " + hex(tok->str()) + ":" + (tok->isNumber() ? "1" : "0");
            }
            else if (f[0] == "N" && f.size() == 2) {
                const std::string s = unhex(f[1]);
                out = std::string("n int=") + (MathLib::isInt(s) ? "1" : "0") + " flt=" + (MathLib::isFloat(s) ? "1" : "0");
                try { out += " big=" + std::to_string(MathLib::toBigNumber(s)); } catch (const InternalError&) { out += " big=E"; }
                try {
                    const double d = MathLib::toDoubleNumber(s);
                    out += " dbl=" + dblstr(d);
                    out += " str=" + hex(MathLib::toString(d));
                } catch (const InternalError&) { out += " dbl=E str=E"; }
            }
            else if (f[0] == "S" && f.size() == 3) {
                const double x = std::ldexp(static_cast<double>(std::stoll(f[1])), std::stoi(f[2]));
                out = "s " + hex(MathLib::toString(x));
            }
            else if (f[0] == "C" && f.size() == 2) {
                out = "d " + dblstr(static_cast<double>(std::stoll(f[1])));
            }
            else if (f[0] == "D" && f.size() >= 3) {
                const int ncall = std::stoi(f[1]);
                const int fmt = std::stoi(f[2]);
                std::string xml = "<?xml version=\"1.0\"?>\n<def>\n<function name=\"f\">";
                if (fmt == 1) xml += "<formatstr scan=\"true\"/>";
                if (fmt == 2) xml += "<formatstr/>";
                for (size_t i = 3; i < f.size(); ++i) {
                    const size_t c = f[i].find(':');
                    const std::string nr = f[i].substr(0, c), fl = c == std::string::npos ? "" : f[i].substr(c + 1);
                    xml += "<arg nr=\"" + nr + "\"";
                    if (fl.find('o') != std::string::npos) xml += " default=\"0\"";
                    xml += ">";
                    for (char ch : fl) {
                        if (ch == 'b') xml += "<not-bool/>";
                        else if (ch == 'n') xml += "<not-null/>";
                        else if (ch == 'u') xml += "<not-uninit/>";
                        else if (ch >= '1' && ch <= '3') xml += std::string("<not-uninit indirect=\"") + ch + "\"/>";
                        else if (ch == 'f') xml += "<formatstr/>";
                        else if (ch == 'v') xml += "<valid>0:</valid>";
                    }
                    xml += "</arg>";
                }
                xml += "</function>\n</def>";
                Library lib;
                const int code = loadDoc(lib, xml);
                out = "load=" + std::to_string(code);
                if (code == 0) {
                    std::string prog = "f(";
                    for (int k = 1; k <= ncall; ++k) prog += (k > 1 ? ",a" : "a") + std::to_string(k);
                    prog += ");";
                    Call call(prog);
                    const Token* ftok = call.list.front();
                    out += std::string(" lib=") + (lib.isNotLibraryFunction(ftok) ? "0" : "1");
                    for (int k = 1; k <= ncall; ++k) {
                        out += " " + std::to_string(k) + ":";
                        out += lib.isnullargbad(ftok, k) ? "1" : "0";
                        out += lib.isboolargbad(ftok, k) ? "1" : "0";
                        for (int ind = 0; ind <= 2; ++ind)
                            out += lib.isuninitargbad(ftok, k, ind) ? "1" : "0";
                        out += lib.validarg(ftok, k).empty() ? "0" : "1";
                    }
                }
            }
            else out = "bad-op";
        } catch (const InternalError&) { out = "throw:InternalError";
        } catch (const std::exception& e) { out = std::string("throw:") + e.what(); }
        std::cout << out << std::endl;
    }
    return 0;
}

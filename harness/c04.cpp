// C04 harness: the real value-based checkers run in-process on a fixed one-line function per checker, after the value list
// of the operand token they look at has been replaced by the list given on the op line.  The checker classes are reached
// through their private constructors / check functions (this harness - only the harness - reads the checker headers and
// token.h with `private` spelled `public`).
//
// op line :  sev <checker> <opts> <param> <values> [/ <values>]
//     checker = zerodiv | nullptr | arrayidx | arrayidx2 | shiftbits | shiftneg | intoverflow | uninit | invalidarg
//     opts    = 4 bits: warning portability inconclusive cplusplus(C++ translation unit, std >= C++14) [+ 1 bit the model reads]
//     param   = zerodiv: -            nullptr: -           arrayidx: <array size>      shiftbits: s|u (sign of the left operand)
//               arrayidx2: <d1>x<d2>  (`a[i][j]` on `int a[d1][d2]`; first value list = i, second = j)
//               shiftneg: <l><r> each s|u      intoverflow: + | <<        uninit: -       invalidarg: - (isdigit, valid 0:255 / -1)
//     values  = `-` or space separated  <K|P|N|I><i|u|o>,<intvalue>,<flags>   flags over c(condition) d(defaultArg) e(errorPath)
//               s(safe) m(outOfMemory) r(outOfResources) p<n>(path) x<n>(indirect), `-` for none
// output  :  `-` or `;`-separated  <id>/<severity>/<certainty n|i>   in report order;   err <what>
// op line :  lib <hex path>[,<hex path>...] ## <name>*        the real Library::load on the files in order
// output  :  <name>=<alloc group | ->/<dealloc group | ->  per name
#include "common.h"
#include <cctype>
#include <cstdint>
#include <iosfwd>
#include <list>
#include <map>
#include <set>
#include <string>
#include <vector>
#include <memory>
#include <functional>
#include <algorithm>
#include <array>
#include <unordered_map>
#include <unordered_set>
#include <utility>
#include <cassert>
#include <sstream>
#define private public
#define protected public
#include "config.h"
#include "token.h"
#include "tokenlist.h"
#include "tokenize.h"
#include "settings.h"
#include "platform.h"
#include "errorlogger.h"
#include "errortypes.h"
#include "standards.h"
#include "astutils.h"
#include "symboldatabase.h"
#include "vfvalue.h"
#include "mathlib.h"
#include "library.h"
#include "check.h"
#include "checkother.h"
#include "checknullpointer.h"
#include "checkbufferoverrun.h"
#include "checktype.h"
#include "checkuninitvar.h"
#include "checkfunctions.h"
#undef private
#undef protected

namespace {
    class Collect : public ErrorLogger {
    public:
        std::vector<std::string> items;
        void reportOut(const std::string&, Color) override {}
        void reportErr(const ErrorMessage& msg) override {
            items.push_back(msg.id + "/" + severityToString(msg.severity) + "/" + (msg.certainty == Certainty::inconclusive ? "i" : "n"));
        }
        void reportMetric(const std::string&) override {}
    };
}

static bool parseValue(const std::string& w, const Token* condTok, ValueFlow::Value& v)
{
    // <K|P|N|I><i|u|o>,<int>,<flags>
    if (w.size() < 5 || w[2] != ',')
        return false;
    const std::string::size_type c2 = w.find(',', 3);
    if (c2 == std::string::npos)
        return false;
    v = ValueFlow::Value(std::stoll(w.substr(3, c2 - 3)));
    switch (w[0]) {
    case 'K': v.valueKind = ValueFlow::Value::ValueKind::Known; break;
    case 'P': v.valueKind = ValueFlow::Value::ValueKind::Possible; break;
    case 'N': v.valueKind = ValueFlow::Value::ValueKind::Inconclusive; break;
    case 'I': v.valueKind = ValueFlow::Value::ValueKind::Impossible; break;
    default: return false;
    }
    switch (w[1]) {
    case 'i': v.valueType = ValueFlow::Value::ValueType::INT; break;
    case 'u': v.valueType = ValueFlow::Value::ValueType::UNINIT; break;
    case 'o': v.valueType = ValueFlow::Value::ValueType::BUFFER_SIZE; break;
    default: return false;
    }
    const std::string fl = w.substr(c2 + 1);
    for (std::string::size_type i = 0; i < fl.size(); ++i) {
        const char ch = fl[i];
        if (ch == '-') continue;
        if (ch == 'c') v.condition = condTok;
        else if (ch == 'd') v.defaultArg = true;
        else if (ch == 'e') v.errorPath.emplace_back(condTok, "injected");
        else if (ch == 's') v.safe = true;
        else if (ch == 'm') v.unknownFunctionReturn = ValueFlow::Value::UnknownFunctionReturn::outOfMemory;
        else if (ch == 'r') v.unknownFunctionReturn = ValueFlow::Value::UnknownFunctionReturn::outOfResources;
        else if (ch == 'p' || ch == 'x') {
            std::string::size_type j = i + 1;
            bool neg = false;
            if (j < fl.size() && fl[j] == '~') { neg = true; ++j; }
            long long n = 0;
            while (j < fl.size() && std::isdigit(static_cast<unsigned char>(fl[j]))) { n = n * 10 + (fl[j] - '0'); ++j; }
            if (neg) n = -n;
            if (ch == 'p') v.path = n; else v.indirect = static_cast<std::int8_t>(n);
            i = j - 1;
        } else
            return false;
    }
    return true;
}

static void setValues(const Token* tok, const std::vector<ValueFlow::Value>& vals)
{
    Token* t = const_cast<Token*>(tok);
    t->clearValueFlow();
    if (!vals.empty())
        t->mImpl->mValues = new std::list<ValueFlow::Value>(vals.begin(), vals.end());
}

static std::string run(const std::string& libpath, const std::vector<std::string>& f)
{
    // f: sev checker opts param values...
    if (f.size() < 5 || f[2].size() < 4)       // a fifth character (code variant, read by the model only) is ignored here
        return "bad-op";
    const std::string& checker = f[1];
    const std::string& param = f[3];
    Settings settings;
    settings.platform.set(Platform::Type::Unix64);
    if (f[2][0] == '1') settings.severity.enable(Severity::warning);
    if (f[2][1] == '1') settings.severity.enable(Severity::portability);
    if (f[2][2] == '1') settings.certainty.enable(Certainty::inconclusive);
    const bool cpp = f[2][3] == '1';
    if (checker == "invalidarg") {
        if (settings.library.load(nullptr, libpath.c_str()).errorcode != Library::ErrorCode::OK)
            return "err library";
    }
    std::string code;
    if (checker == "zerodiv") code = "int f(int a, int b) { return a / b; }";
    else if (checker == "nullptr") code = "int f(int *p) { return *p; }";
    else if (checker == "arrayidx") code = "int f(int i) { int a[" + param + "]; a[0] = 0; return a[i]; }";
    else if (checker == "arrayidx2") {
        const std::string::size_type x = param.find('x');
        if (x == std::string::npos) return "bad-op";
        code = "int f(int i, int j) { int a[" + param.substr(0, x) + "][" + param.substr(x + 1) + "]; a[0][0] = 0; return a[i][j]; }";
    }
    else if (checker == "shiftbits") code = std::string("int f(") + (param == "u" ? "unsigned " : "") + "int a, int n) { return a << n; }";
    else if (checker == "shiftneg") {
        if (param.size() != 2) return "bad-op";
        code = std::string("int f(") + (param[0] == 'u' ? "unsigned " : "") + "int a, " + (param[1] == 'u' ? "unsigned " : "") + "int n) { return a << n; }";
    }
    else if (checker == "intoverflow") code = "int f(int a, int b) { return a " + param + " b; }";
    else if (checker == "uninit") code = "int f(void) { int x; return x; }";
    else if (checker == "invalidarg") code = "int f(int c) { return isdigit(c); }";
    else return "bad-op";

    Collect logger;
    try {
        Tokenizer tokenizer{TokenList{settings, cpp ? Standards::Language::CPP : Standards::Language::C}, logger};
        tokenizer.list.appendFileIfNew(cpp ? "test.cpp" : "test.c");
        if (!tokenizer.list.createTokensFromBuffer(code.data(), code.size()))
            return "err createTokens";
        if (!tokenizer.simplifyTokens1(""))
            return "err simplifyTokens1";
        // locate the operand token(s)
        const Token* ret = Token::findsimplematch(tokenizer.tokens(), "return");
        if (!ret || !ret->astOperand1())
            return "err noreturn";
        const Token* top = ret->astOperand1();
        const Token* t1 = nullptr;
        const Token* t2 = nullptr;
        if (checker == "zerodiv" || checker == "shiftbits") t1 = top->astOperand2();
        else if (checker == "nullptr") t1 = top->astOperand1();
        else if (checker == "arrayidx") t1 = top->astOperand2();
        else if (checker == "shiftneg") { t1 = top->astOperand1(); t2 = top->astOperand2(); }
        else if (checker == "arrayidx2") { t1 = top->astOperand1() ? top->astOperand1()->astOperand2() : nullptr; t2 = top->astOperand2(); }
        else if (checker == "intoverflow" || checker == "uninit") t1 = top;
        else if (checker == "invalidarg") t1 = top->astOperand2();
        if (!t1)
            return "err nooperand";
        const Token* condTok = tokenizer.tokens();
        std::vector<ValueFlow::Value> l1, l2;
        bool second = false;
        for (std::size_t i = 4; i < f.size(); ++i) {
            if (f[i] == "-") continue;
            if (f[i] == "/") { second = true; continue; }
            ValueFlow::Value v;
            if (!parseValue(f[i], condTok, v))
                return "bad-op";
            (second ? l2 : l1).push_back(v);
        }
        // every token of the function loses the values the real value flow gave it: the list on the op line is the only input
        for (const Token* t = tokenizer.tokens(); t; t = t->next())
            const_cast<Token*>(t)->clearValueFlow();
        setValues(t1, l1);
        if (t2)
            setValues(t2, l2);
        logger.items.clear();
        if (checker == "zerodiv") { CheckOther c(&tokenizer, &settings, &logger); c.checkZeroDivision(); }
        else if (checker == "nullptr") { CheckNullPointer c(&tokenizer, &settings, &logger); c.nullPointer(); }
        else if (checker == "arrayidx" || checker == "arrayidx2") { CheckBufferOverrun c(&tokenizer, &settings, &logger); c.arrayIndex(); }
        else if (checker == "shiftbits") { CheckType c(&tokenizer, &settings, &logger); c.checkTooBigBitwiseShift(); }
        else if (checker == "shiftneg") { CheckOther c(&tokenizer, &settings, &logger); c.checkNegativeBitwiseShift(); }
        else if (checker == "intoverflow") { CheckType c(&tokenizer, &settings, &logger); c.checkIntegerOverflow(); }
        else if (checker == "uninit") { CheckUninitVar c(&tokenizer, &settings, &logger); c.valueFlowUninit(); }
        else if (checker == "invalidarg") { CheckFunctions c(&tokenizer, &settings, &logger); c.invalidFunctionUsage(); }
        std::string out;
        for (std::size_t i = 0; i < logger.items.size(); ++i)
            out += (i ? ";" : "") + logger.items[i];
        return out.empty() ? "-" : out;
    } catch (const InternalError& e) {
        return "err InternalError:" + e.id;
    } catch (const std::exception& e) {
        return std::string("err exception:") + hex(e.what());
    }
}

static std::string libgroups(const std::vector<std::string>& f)
{
    if (f.size() < 3)
        return "bad-op";
    Library lib;
    std::string paths = f[1];
    std::string::size_type pos = 0;
    while (pos <= paths.size()) {
        const std::string::size_type c = paths.find(',', pos);
        const std::string p = unhex(paths.substr(pos, c == std::string::npos ? std::string::npos : c - pos));
        if (lib.load(nullptr, p.c_str()).errorcode != Library::ErrorCode::OK)
            return "err load:" + hex(p);
        if (c == std::string::npos)
            break;
        pos = c + 1;
    }
    std::string out;
    for (std::size_t i = 3; i < f.size(); ++i) {
        const Library::AllocFunc* a = lib.getAllocFuncInfo(f[i].c_str());
        const Library::AllocFunc* d = lib.getDeallocFuncInfo(f[i].c_str());
        out += (i > 3 ? " " : "") + f[i] + "=" + (a ? std::to_string(a->groupId) : "-") + "/" + (d ? std::to_string(d->groupId) : "-");
    }
    return out;
}

int main(int argc, char** argv)
{
    const std::string libpath = argc > 1 ? argv[1] : "/repo/cfg/std.cfg";
    std::string line;
    while (std::getline(std::cin, line)) {
        const std::vector<std::string> f = fields(line);
        std::string out = "bad-op";
        if (!f.empty() && f[0] == "sev")
            out = run(libpath, f);
        else if (!f.empty() && f[0] == "lib" && f.size() >= 3 && f[2] == "##")
            out = libgroups(f);
        std::cout << out << "\n";
    }
    std::cout.flush();
    return 0;
}

// C34 harness: the JSON reader the addon relay uses (picojson as configured by lib/json.h of the working tree)
// applied to one raw line, printing the view of the value that CppCheck::executeAddons looks at:
//   parse <hexline>  ->  B                       picojson::parse reports an error, or the value is not an object
//                        O:<members>:<loc>:<met> members = <hexkey>=<s<hex>|i<int64>|o>,...  ("." = none; std::map order)
//                                                loc = a (absent) | n (not an array) | r<item>;<item>... (item = members | x)
//                                                met = - (absent) | t (an object) | f (anything else)
// This is the abstraction raw text -> ObjLine of the Lean model (lean/Driver/C34.lean reads the same encoding).
#include "common.h"
#include "json.h"

static std::string scalar(const picojson::value& v) {
    if (v.is<std::string>())
        return "s" + hex(v.get<std::string>());
    if (v.is<int64_t>())
        return "i" + std::to_string(v.get<int64_t>());
    return "o";
}

static std::string members(const picojson::object& o) {
    std::string out;
    for (const auto& kv : o) {
        if (!out.empty()) out += ",";
        out += hex(kv.first) + "=" + scalar(kv.second);
    }
    return out.empty() ? "." : out;
}

int main() {
    std::string line;
    while (std::getline(std::cin, line)) {
        const std::vector<std::string> f = fields(line);
        if (f.size() != 2 || f[0] != "parse") { std::cout << "bad-op" << std::endl; continue; }
        const std::string text = unhex(f[1]);
        picojson::value res;
        const std::string err = picojson::parse(res, text);
        if (!err.empty() || !res.is<picojson::object>()) { std::cout << "B" << std::endl; continue; }
        const picojson::object& obj = res.get<picojson::object>();
        std::string loc = "a";
        const auto itl = obj.find("loc");
        if (itl != obj.end()) {
            if (!itl->second.is<picojson::array>())
                loc = "n";
            else {
                loc = "r";
                bool first = true;
                for (const picojson::value& it : itl->second.get<picojson::array>()) {
                    if (!first) loc += ";";
                    first = false;
                    loc += it.is<picojson::object>() ? members(it.get<picojson::object>()) : std::string("x");
                }
            }
        }
        std::string met = "-";
        const auto itm = obj.find("metric");
        if (itm != obj.end())
            met = itm->second.is<picojson::object>() ? "t" : "f";
        std::cout << "O:" << members(obj) << ":" << loc << ":" << met << std::endl;
    }
    return 0;
}

// C08 harness: the real Tokenizer run in-process on a printed scope program (as test/helpers.h SimpleTokenizer drives it:
// TokenList + Tokenizer); prints the variable id of every tracked name token at two stages.
//
// op line:  <c|cpp> <hexsource>            varids (model tie)
//           link <hexsource>               C++: what every token spelled v<digits> / f<digits> is LINKED to after the complete
//                                          simplifyTokens1 (SymbolDatabase): `<line>:V<line of Variable::nameToken>`,
//                                          `<line>:F<line of Function::tokenDef>`, `<line>:-` (not linked)
// output :  ok A <line>:<varid> ... | B <line>:<varid> ...
//              A = after Tokenizer::simplifyTokenList1 (the token-list passes up to and including setVarId: what the
//                  model of VariableMap / setVarIdPass1 describes)
//              B = after the complete Tokenizer::simplifyTokens1 (AST, SymbolDatabase, value flow: the ids --dump shows;
//                  SymbolDatabase::createSymbolDatabaseEnums may clear ids)
//              one entry per token spelled v<digits>, in token order
//           err <what>                                 the tokenizer rejected the program
// The generator prints every tracked name occurrence on a line of its own, so the line number identifies the
// occurrence even though simplifyVarDecl duplicates name tokens (`int x = e;` -> `int x ; x = e ;`).
//
// simplifyTokenList1 is a private member; the harness (only the harness) reads tokenize.h with `private` spelled
// `public` to call it - every header tokenize.h includes is included before, untouched.
#include "common.h"
#include <cctype>
#include <cstdint>
#include <iosfwd>
#include <list>
#include <map>
#include <set>
#include <string>
#include <vector>
#include "config.h"
#include "token.h"
#include "tokenlist.h"
#include "settings.h"
#include "errorlogger.h"
#include "errortypes.h"
#include "standards.h"
#include "symboldatabase.h"
#define private public
#include "tokenize.h"
#undef private

namespace {
    class Quiet : public ErrorLogger {
    public:
        void reportOut(const std::string&, Color) override {}
        void reportErr(const ErrorMessage&) override {}
        void reportMetric(const std::string&) override {}
    };
}

static bool tracked(const std::string& s) {
    if (s.size() < 2 || s[0] != 'v') return false;
    for (size_t i = 1; i < s.size(); ++i) if (!std::isdigit(static_cast<unsigned char>(s[i]))) return false;
    return true;
}

static std::string ids(const Tokenizer& tokenizer) {
    std::string out;
    for (const Token* t = tokenizer.tokens(); t; t = t->next()) {
        if (t->isName() && tracked(t->str()))
            out += " " + std::to_string(t->linenr()) + ":" + std::to_string(t->varId());
    }
    return out;
}

// stage 0: token list passes only; stage 1: everything
static std::string run(const Settings& settings, bool cpp, const std::string& code, int stage) {
    Quiet logger;
    try {
        Tokenizer tokenizer{TokenList{settings, cpp ? Standards::Language::CPP : Standards::Language::C}, logger};
        const char* file = cpp ? "test.cpp" : "test.c";
        tokenizer.list.appendFileIfNew(file);
        if (!tokenizer.list.createTokensFromBuffer(code.data(), code.size()))
            return "!createTokens";
        if (stage == 0) {
            tokenizer.fillTypeSizes();
            if (!tokenizer.simplifyTokenList1(file))
                return "!simplifyTokenList1";
        } else if (!tokenizer.simplifyTokens1("")) {
            return "!simplifyTokens1";
        }
        return ids(tokenizer);
    } catch (const InternalError& e) {
        return "!InternalError:" + e.id;
    } catch (const std::exception&) {
        return "!exception";
    }
}

static bool trackedVF(const std::string& s) {
    if (s.size() < 2 || (s[0] != 'v' && s[0] != 'f')) return false;
    for (size_t i = 1; i < s.size(); ++i) if (!std::isdigit(static_cast<unsigned char>(s[i]))) return false;
    return true;
}

static std::string links(const Settings& settings, const std::string& code) {
    Quiet logger;
    try {
        Tokenizer tokenizer{TokenList{settings, Standards::Language::CPP}, logger};
        tokenizer.list.appendFileIfNew("test.cpp");
        if (!tokenizer.list.createTokensFromBuffer(code.data(), code.size()))
            return "err createTokens";
        if (!tokenizer.simplifyTokens1(""))
            return "err simplifyTokens1";
        std::string out = "ok";
        for (const Token* t = tokenizer.tokens(); t; t = t->next()) {
            if (!t->isName() || !trackedVF(t->str()))
                continue;
            out += " " + std::to_string(t->linenr()) + ":";
            if (t->variable() && t->variable()->nameToken())
                out += "V" + std::to_string(t->variable()->nameToken()->linenr());
            else if (t->function() && t->function()->tokenDef)
                out += "F" + std::to_string(t->function()->tokenDef->linenr());
            else
                out += "-";
        }
        return out;
    } catch (const InternalError& e) {
        return "err InternalError:" + e.id;
    } catch (const std::exception&) {
        return "err exception";
    }
}

int main() {
    Settings settings;
    std::string line;
    while (std::getline(std::cin, line)) {
        std::vector<std::string> f = fields(line);
        if (f.size() == 2 && f[0] == "link") { std::cout << links(settings, unhex(f[1])) << std::endl; continue; }
        if (f.size() != 2 || (f[0] != "c" && f[0] != "cpp")) { std::cout << "bad-op" << std::endl; continue; }
        const bool cpp = f[0] == "cpp";
        const std::string code = unhex(f[1]);
        const std::string a = run(settings, cpp, code, 0);
        const std::string b = run(settings, cpp, code, 1);
        if (!a.empty() && a[0] == '!') std::cout << "err A " << a.substr(1) << std::endl;
        else if (!b.empty() && b[0] == '!') std::cout << "err B " << b.substr(1) << std::endl;
        else std::cout << "ok A" << a << " | B" << b << std::endl;
    }
    return 0;
}

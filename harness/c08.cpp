// C08 harness: the real Tokenizer (TokenList + Tokenizer::simplifyTokens1, as test/helpers.h SimpleTokenizer
// drives it) run in-process on a printed scope program; prints the variable id of every tracked name token.
//
// op line:  <c|cpp> <hexsource>
// output :  ok <line>:<varid> <line>:<varid> ...      one entry per token spelled v<digits>, in token order
//           err <what>                                 the tokenizer rejected the program
// The generator prints every tracked name occurrence on a line of its own, so the line number identifies the
// occurrence even though simplifyVarDecl duplicates name tokens (`int x = e;` -> `int x ; x = e ;`).
#include "common.h"
#include "token.h"
#include "tokenlist.h"
#include "tokenize.h"
#include "settings.h"
#include "errorlogger.h"
#include "errortypes.h"
#include "standards.h"
#include <cctype>

namespace {
    class Quiet : public ErrorLogger {
    public:
        std::string first;
        void reportOut(const std::string&, Color) override {}
        void reportErr(const ErrorMessage& msg) override { if (first.empty()) first = msg.id; }
        void reportMetric(const std::string&) override {}
    };
}

static bool tracked(const std::string& s) {
    if (s.size() < 2 || s[0] != 'v') return false;
    for (size_t i = 1; i < s.size(); ++i) if (!std::isdigit(static_cast<unsigned char>(s[i]))) return false;
    return true;
}

int main() {
    Settings settings;
    std::string line;
    while (std::getline(std::cin, line)) {
        std::vector<std::string> f = fields(line);
        if (f.size() != 2 || (f[0] != "c" && f[0] != "cpp")) { std::cout << "bad-op" << std::endl; continue; }
        const bool cpp = f[0] == "cpp";
        const std::string code = unhex(f[1]);
        Quiet logger;
        std::string out;
        try {
            Tokenizer tokenizer{TokenList{settings, cpp ? Standards::Language::CPP : Standards::Language::C}, logger};
            tokenizer.list.appendFileIfNew(cpp ? "test.cpp" : "test.c");
            if (!tokenizer.list.createTokensFromBuffer(code.data(), code.size())) {
                out = "err createTokens";
            } else if (!tokenizer.simplifyTokens1("")) {
                out = "err simplifyTokens1";
            } else {
                out = "ok";
                for (const Token* t = tokenizer.tokens(); t; t = t->next()) {
                    if (t->isName() && tracked(t->str()))
                        out += " " + std::to_string(t->linenr()) + ":" + std::to_string(t->varId());
                }
            }
        } catch (const InternalError& e) {
            out = "err InternalError:" + e.id;
        } catch (const std::exception& e) {
            out = std::string("err exception");
        }
        std::cout << out << std::endl;
    }
    return 0;
}

// C31 harness: the real PathMatch::match / PathIterator::read / Path::simplifyPath / Path::acceptFile /
// FileLister::recursiveAddFiles, one op per line (fields are hex byte strings, "-" = empty, "N" = nullptr).
//   pm  <u|w> <r|d> <pattern> <path> <base>                -> 0|1          (static PathMatch::match)
//   pml <u|w> <r|d> <path> <base> <n> <pattern>*n          -> 0|1          (PathMatch object, list of patterns)
//   pi  <u|w> <a|N> <b|N>                                  -> hex          (PathIterator(a,b,syntax).read())
//   sp  <path>                                             -> hex          (Path::simplifyPath)
//   af  <path> <n> <extra>*n                               -> <accept> <lang> <header> <ext>
//   rp  <pattern>                                          -> <isRelativePattern> <isAbsolute>
//   jn  <a> <b>                                            -> hex          (Path::join)
//   grp <abs> <n> <basepath>*n                             -> hex          (Path::getRelativePath)
//   cli <n> <arg>*n                                        -> F | S <ni> <ignored>*ni <nf> <filter>*nf <np> <pathname>*np
//       the real CmdLineParser::parseFromArgs on argv = {"cppcheck", arg…}; its mIgnoredPaths / mPathNames afterwards
//   ls  <casedir> <patharg> <nodepath> <base> <ni> <ign>*ni <ne> <extra>*ne <ntop> <tree>*ntop
//                                                           -> E<err> <count> {<path>:<lang>}*
//       tree: d <name> <k> <tree>*k | f <name>, created inside the fresh directory <casedir>, which becomes the cwd;
//       <nodepath> (names from casedir to the node <patharg> refers to, "!" = nothing) is for the model only
#include "common.h"
#include "pathmatch.h"
#include "path.h"
#include "filelister.h"
#include "filesettings.h"
#include "standards.h"
#include "cmdlineparser.h"
#include "cmdlinelogger.h"
#include "settings.h"
#include "suppressions.h"

#include <filesystem>
#include <fstream>
#include <list>
#include <set>
#include <unistd.h>
#include <sys/stat.h>

struct Acc : public PathMatch {
    using PathMatch::PathIterator;
};
using PIter = Acc::PathIterator;

struct QuietLogger : public CmdLineLogger {
    void printMessage(const std::string &) override {}
    void printError(const std::string &) override {}
    void printRaw(const std::string &) override {}
};
struct ParserAcc : public CmdLineParser {
    using CmdLineParser::CmdLineParser;
    using CmdLineParser::parseFromArgs;
    using CmdLineParser::mIgnoredPaths;
    using CmdLineParser::mPathNames;
};

static PathMatch::Syntax syn(const std::string& s) { return s == "w" ? PathMatch::Syntax::windows : PathMatch::Syntax::unix; }
static PathMatch::Filemode fm(const std::string& s) { return s == "d" ? PathMatch::Filemode::directory : PathMatch::Filemode::regular; }

static bool mktree(const std::vector<std::string>& f, size_t& i, const std::string& dir)
{
    if (i >= f.size()) return false;
    const std::string kind = f[i++];
    if (i >= f.size()) return false;
    const std::string name = unhex(f[i++]);
    const std::string p = dir + "/" + name;
    if (kind == "f") {
        std::ofstream o(p, std::ios::binary);
        o << "x";
        return o.good();
    }
    if (kind != "d" || i >= f.size()) return false;
    const int k = std::stoi(f[i++]);
    if (mkdir(p.c_str(), 0777) != 0) return false;
    for (int j = 0; j < k; ++j)
        if (!mktree(f, i, p)) return false;
    return true;
}

int main()
{
    char cwd0[4096];
    if (!getcwd(cwd0, sizeof(cwd0))) return 2;
    std::string line;
    while (std::getline(std::cin, line)) {
        const std::vector<std::string> f = fields(line);
        std::string out = "bad-op";
        try {
            if (f.size() == 6 && f[0] == "pm") {
                out = PathMatch::match(unhex(f[3]), unhex(f[4]), unhex(f[5]), fm(f[2]), syn(f[1])) ? "1" : "0";
            } else if (f.size() >= 6 && f[0] == "pml") {
                const size_t n = std::stoul(f[5]);
                std::vector<std::string> pats;
                for (size_t k = 0; k < n && 6 + k < f.size(); ++k) pats.push_back(unhex(f[6 + k]));
                const PathMatch m(pats, unhex(f[4]), syn(f[1]));
                out = m.match(unhex(f[3]), fm(f[2])) ? "1" : "0";
            } else if (f.size() == 4 && f[0] == "pi") {
                const std::string a = f[2] == "N" ? "" : unhex(f[2]);
                const std::string b = f[3] == "N" ? "" : unhex(f[3]);
                PIter it(f[2] == "N" ? nullptr : a.c_str(), f[3] == "N" ? nullptr : b.c_str(), syn(f[1]));
                out = hex(it.read());
            } else if (f.size() == 2 && f[0] == "sp") {
                out = hex(Path::simplifyPath(unhex(f[1])));
            } else if (f.size() >= 3 && f[0] == "af") {
                const size_t n = std::stoul(f[2]);
                std::set<std::string> extra;
                for (size_t k = 0; k < n && 3 + k < f.size(); ++k) extra.insert(unhex(f[3 + k]));
                Standards::Language lang = Standards::Language::None;
                const std::string p = unhex(f[1]);
                const bool acc = Path::acceptFile(p, extra, &lang);
                bool header = false;
                (void)Path::identify(p, false, &header);
                out = std::string(acc ? "1" : "0") + " " + std::to_string(static_cast<int>(lang)) + " " + (header ? "1" : "0") + " " + hex(Path::getFilenameExtension(p));
            } else if (f.size() == 2 && f[0] == "rp") {
                const std::string p = unhex(f[1]);
                out = std::string(PathMatch::isRelativePattern(p) ? "1" : "0") + " " + (Path::isAbsolute(p) ? "1" : "0");
            } else if (f.size() == 3 && f[0] == "jn") {
                out = hex(Path::join(unhex(f[1]), unhex(f[2])));
            } else if (f.size() >= 3 && f[0] == "grp") {
                const size_t n = std::stoul(f[2]);
                std::vector<std::string> bps;
                for (size_t k = 0; k < n && 3 + k < f.size(); ++k) bps.push_back(unhex(f[3 + k]));
                out = hex(Path::getRelativePath(unhex(f[1]), bps));
            } else if (f.size() >= 2 && f[0] == "cli") {
                const size_t n = std::stoul(f[1]);
                std::vector<std::string> args{"cppcheck"};
                for (size_t k = 0; k < n && 2 + k < f.size(); ++k) args.push_back(unhex(f[2 + k]));
                std::vector<const char*> argv;
                for (const std::string& a : args) argv.push_back(a.c_str());
                QuietLogger logger;
                Settings settings;
                Suppressions supprs;
                ParserAcc parser(logger, settings, supprs);
                const CmdLineParser::Result r = parser.parseFromArgs(static_cast<int>(argv.size()), argv.data());
                if (r != CmdLineParser::Result::Success) {
                    out = "F";
                } else {
                    out = "S " + std::to_string(parser.mIgnoredPaths.size());
                    for (const std::string& p : parser.mIgnoredPaths) out += " " + hex(p);
                    out += " " + std::to_string(settings.fileFilters.size());
                    for (const std::string& p : settings.fileFilters) out += " " + hex(p);
                    out += " " + std::to_string(parser.mPathNames.size());
                    for (const std::string& p : parser.mPathNames) out += " " + hex(p);
                }
            } else if (f.size() >= 8 && f[0] == "ls") {
                const std::string casedir = unhex(f[1]);
                const std::string patharg = unhex(f[2]);
                const std::string base = unhex(f[4]);
                size_t i = 5;
                const size_t ni = std::stoul(f.at(i++));
                std::vector<std::string> ign;
                for (size_t k = 0; k < ni; ++k) ign.push_back(unhex(f.at(i++)));
                const size_t ne = std::stoul(f.at(i++));
                std::set<std::string> extra;
                for (size_t k = 0; k < ne; ++k) extra.insert(unhex(f.at(i++)));
                const size_t ntop = std::stoul(f.at(i++));
                std::error_code ec;
                std::filesystem::remove_all(casedir, ec);
                std::filesystem::create_directories(casedir, ec);
                bool ok = !ec;
                for (size_t k = 0; ok && k < ntop; ++k) ok = mktree(f, i, casedir);
                if (!ok || chdir(casedir.c_str()) != 0) {
                    out = "tree-error";
                } else {
                    std::list<FileWithDetails> files;
                    const PathMatch matcher(ign, base);
                    const std::string err = FileLister::recursiveAddFiles(files, patharg, extra, matcher);
                    out = "E" + hex(err) + " " + std::to_string(files.size());
                    for (const FileWithDetails& fw : files)
                        out += " " + hex(fw.path()) + ":" + std::to_string(static_cast<int>(fw.lang()));
                }
                if (chdir(cwd0) != 0) return 2;
                std::filesystem::remove_all(casedir, ec);
            }
        } catch (const std::exception& e) {
            out = std::string("exception:") + hex(e.what());
        }
        std::cout << out << std::endl;
    }
    return 0;
}

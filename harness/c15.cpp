// C15 harness: the real inter-process encoding and the real parent-side gate, in process.
//
// cli/executor.cpp and cli/processexecutor.cpp of the working tree are compiled INTO this translation unit
// (so that the anonymous-namespace PipeWriter and the private ProcessExecutor::handleRead / Executor::hasToLog
// can be called); everything else comes from the lib objects of the working tree.
//
// MSG   = id sev cwe hash remark file0 inc short verbose symbols n {line col file orig info}*n      (strings hex, "-" = empty)
// SUPPR = errorId fileName line symbol polyspace column checked matched extraComment inline type lineBegin lineEnd macroName hash thisAndNext
//
// op lines (see lean/Driver/C15.lean for the model side):
//   ser MSG                      -> "S <hex of serialize()> | D <deserialize(serialize())>"
//   des <hex>                    -> "D ok MSG" | "D E:<class>"
//   fix <hex>                    -> "F <hex>"                    ErrorMessage::fixInvalidChars
//   simp <hex>                   -> "P <hex>"                    Path::simplifyPath (oracle for the model parameter)
//   pl <hex>                     -> "L ok SUPPR" | "L E:<class>" SuppressionList::parseLine
//   senc SUPPR                   -> "E <hex>"                    PipeWriter::suppressionToString
//   pw <type char code> <hex>    -> "W <hex>"                    PipeWriter::writeToPipe (bytes found in the pipe)
//   pwmsg MSG                    -> "W <hex>"                    PipeWriter::reportErr
//   wsup <n> SUPPR*n             -> "W <hex>"                    PipeWriter::writeSuppr
//   hr <flags> <ids> <hex>       -> events of ProcessExecutor::handleRead called until it returns false, on a pipe holding <hex>
//   htl <flags> <ids> <n> MSG*n  -> "H <bits>"                   Executor::hasToLog on the sequence (template "{id}")
//        flags: 1 = --emit-duplicates, 2 = templateLocation "{line}:{info}" (templateFormat is always "{id}")
//        ids = comma separated global suppressions ("-" = none): <hexid> = --suppress=<id>, <hexid>@<line> = --suppress=<id>:*:<line>
#include "common.h"
#include <algorithm>
#include <array>
#include <cerrno>
#include <csignal>
#include <cstring>
#include <functional>
#include <list>
#include <map>
#include <memory>
#include <mutex>
#include <set>
#include <stdexcept>
#include <unordered_set>
#include <fcntl.h>
#include <sys/select.h>
#include <sys/wait.h>
#include <unistd.h>
#include <tinyxml2.h>

#define private public
#define protected public
#include "errorlogger.h"
#include "suppressions.h"
#include "executor.h"
#include "processexecutor.h"
#include "executor.cpp"
#include "processexecutor.cpp"
#undef private
#undef protected

#include "path.h"
#include "settings.h"
#include "filesettings.h"

namespace {
struct Args {
    std::vector<std::string> f;
    size_t i = 0;
    bool ok = true;
    std::string next() { if (i >= f.size()) { ok = false; return "-"; } return f[i++]; }
    std::string str() { return unhex(next()); }
    long long num() { const std::string s = next(); try { return std::stoll(s); } catch (...) { ok = false; return 0; } }
    unsigned long long unum() { const std::string s = next(); try { return std::stoull(s); } catch (...) { ok = false; return 0; } }
};

ErrorMessage readMsg(Args& a) {
    ErrorMessage m;
    m.id = a.str();
    m.severity = static_cast<Severity>(a.num());
    m.cwe.id = static_cast<unsigned short>(a.unum());
    m.hash = static_cast<std::size_t>(a.unum());
    m.remark = a.str();
    m.file0 = a.str();
    m.certainty = a.num() ? Certainty::inconclusive : Certainty::normal;
    m.mShortMessage = a.str();
    m.mVerboseMessage = a.str();
    m.mSymbolNames = a.str();
    const long long n = a.num();
    for (long long k = 0; k < n && a.ok; ++k) {
        const int line = static_cast<int>(a.num());
        const unsigned col = static_cast<unsigned>(a.unum());
        ErrorMessage::FileLocation loc("", line, col);
        loc.mFileName = a.str();
        loc.mOrigFileName = a.str();
        loc.mInfo = a.str();
        m.callStack.push_back(std::move(loc));
    }
    return m;
}

std::string showMsg(const ErrorMessage& m) {
    std::string s = hex(m.id) + " " + std::to_string(static_cast<int>(m.severity)) + " " + std::to_string(m.cwe.id) + " " + std::to_string(m.hash) + " " +
                    hex(m.remark) + " " + hex(m.file0) + " " + (m.certainty == Certainty::inconclusive ? "1" : "0") + " " + hex(m.mShortMessage) + " " +
                    hex(m.mVerboseMessage) + " " + hex(m.mSymbolNames) + " " + std::to_string(m.callStack.size());
    for (const auto& l : m.callStack)
        s += " " + std::to_string(l.line) + " " + std::to_string(l.column) + " " + hex(l.mFileName) + " " + hex(l.mOrigFileName) + " " + hex(l.mInfo);
    return s;
}

SuppressionList::Suppression readSuppr(Args& a) {
    SuppressionList::Suppression s;
    s.errorId = a.str();
    s.fileName = a.str();
    s.lineNumber = static_cast<int>(a.num());
    s.symbolName = a.str();
    s.isPolyspace = a.num() != 0;
    s.column = static_cast<int>(a.num());
    s.checked = a.num() != 0;
    s.matched = a.num() != 0;
    s.extraComment = a.str();
    s.isInline = a.num() != 0;
    s.type = static_cast<SuppressionList::Type>(a.num());
    s.lineBegin = static_cast<int>(a.num());
    s.lineEnd = static_cast<int>(a.num());
    s.macroName = a.str();
    s.hash = static_cast<std::size_t>(a.unum());
    s.thisAndNextLine = a.num() != 0;
    return s;
}

std::string showSuppr(const SuppressionList::Suppression& s) {
    return hex(s.errorId) + " " + hex(s.fileName) + " " + std::to_string(s.lineNumber) + " " + hex(s.symbolName) + " " + (s.isPolyspace ? "1" : "0") + " " +
           std::to_string(s.column) + " " + (s.checked ? "1" : "0") + " " + (s.matched ? "1" : "0") + " " + hex(s.extraComment) + " " + (s.isInline ? "1" : "0") + " " +
           std::to_string(static_cast<int>(s.type)) + " " + std::to_string(s.lineBegin) + " " + std::to_string(s.lineEnd) + " " + hex(s.macroName) + " " +
           std::to_string(s.hash) + " " + (s.thisAndNextLine ? "1" : "0");
}

std::string classOf(const std::string& what) {
    static const std::pair<const char*, const char*> tbl[] = {
        {"invalid length (stack)", "E:invalid-length-stack"}, {"invalid separator (stack)", "E:invalid-separator-stack"},
        {"premature end of data (stack)", "E:premature-end-stack"}, {"invalid length", "E:invalid-length"},
        {"invalid separator", "E:invalid-separator"}, {"premature end of data", "E:premature-end"}, {"invalid CWE ID", "E:invalid-cwe"},
        {"invalid hash", "E:invalid-hash"}, {"invalid stack size", "E:invalid-stack-size"}, {"insufficient elements", "E:insufficient-elements"},
        {"Deserializing of error message failed", "E:frame-fields"},
    };
    for (const auto& e : tbl)
        if (what.find(e.first) != std::string::npos)
            return e.second;
    return "E:other(" + what + ")";
}

std::string desOf(const std::string& data) {
    ErrorMessage m;
    try {
        m.deserialize(data);
    } catch (const InternalError& e) {
        return classOf(e.errorMessage);
    } catch (const std::runtime_error&) {
        return "E:runtime-error";
    }
    return "ok " + showMsg(m);
}

// read everything that is in a pipe whose write end is closed
std::string drain(int fd) {
    std::string out;
    char buf[4096];
    for (;;) {
        const ssize_t n = read(fd, buf, sizeof(buf));
        if (n <= 0) break;
        out.append(buf, static_cast<size_t>(n));
    }
    return out;
}

// run `fn(PipeWriter&)` against a fresh pipe and return the bytes it wrote (a reader thread is not needed: callers keep payloads < 60000 bytes)
std::string withWriter(const std::function<void(PipeWriter&)>& fn) {
    int p[2];
    if (pipe(p) != 0) return "";
    fcntl(p[1], F_SETPIPE_SZ, 1 << 20);
    {
        PipeWriter w(p[1], false);
        fn(w);
    }
    close(p[1]);
    const std::string bytes = drain(p[0]);
    close(p[0]);
    return bytes;
}

class EventLogger : public ErrorLogger {
public:
    explicit EventLogger(int fd) : fd(fd) {}
    void emit(const std::string& s) const { const std::string t = s + "\n"; (void)!write(fd, t.data(), t.size()); }
    void reportOut(const std::string& outmsg, Color c) override { emit("O " + std::to_string(static_cast<int>(c)) + " " + hex(outmsg)); }
    void reportErr(const ErrorMessage& msg) override { emit("R " + showMsg(msg)); }
    void reportMetric(const std::string& metric) override { emit("M " + hex(metric)); }
    int fd;
};

// flags: bit 0 = emitDuplicates, bit 1 = templateLocation "{line}:{info}" (else empty)
void setup(Settings& settings, Suppressions& supprs, long long flags, const std::string& ids) {
    settings.templateFormat = "{id}";
    settings.templateLocation = (flags & 2) ? "{line}:{info}" : "";
    settings.emitDuplicates = (flags & 1) != 0;
    settings.jobs = 2;
    if (ids != "-") {
        std::istringstream is(ids);
        std::string cur;
        while (std::getline(is, cur, ',')) {
            // "<hexid>" = --suppress=<id>;  "<hexid>@<line>" = --suppress=<id>:*:<line>  (both non-local)
            const std::string::size_type at = cur.find('@');
            if (at == std::string::npos)
                supprs.nomsg.addSuppressionLine(unhex(cur));
            else
                supprs.nomsg.addSuppressionLine(unhex(cur.substr(0, at)) + ":*:" + cur.substr(at + 1));
        }
    }
}

std::string handleReadOp(long long emitdup, const std::string& ids, const std::string& bytes) {
    int in[2], ev[2];
    if (pipe(in) != 0 || pipe(ev) != 0) return "pipe-failed";
    fcntl(in[1], F_SETPIPE_SZ, 1 << 20);
    fcntl(ev[1], F_SETPIPE_SZ, 1 << 20);
    std::cout.flush();
    // the "worker" side of this op: the bytes are put into the pipe (callers keep them below the pipe capacity) and the pipe is closed
    {
        fcntl(in[1], F_SETFL, fcntl(in[1], F_GETFL, 0) | O_NONBLOCK);
        size_t off = 0;
        while (off < bytes.size()) {
            const ssize_t n = write(in[1], bytes.data() + off, bytes.size() - off);
            if (n <= 0) break;
            off += static_cast<size_t>(n);
        }
        close(in[1]);
        if (off != bytes.size()) { close(in[0]); close(ev[0]); close(ev[1]); return "pipe-too-small"; }
    }
    // run handleRead in a child so that std::exit / abort are observable
    const pid_t rpid = fork();
    if (rpid == 0) {
        close(ev[0]);
        std::signal(SIGABRT, SIG_DFL);
        int devnull = open("/dev/null", O_WRONLY);
        dup2(devnull, 2);
        dup2(devnull, 1);
        Settings settings;
        Suppressions supprs;
        setup(settings, supprs, emitdup, ids);
        const size_t nInitial = supprs.nomsg.getSuppressions().size();
        EventLogger logger(ev[1]);
        std::list<FileWithDetails> files;
        std::list<FileSettings> fileSettings;
        ProcessExecutor ex(files, fileSettings, settings, supprs, logger, nullptr, CppCheck::ExecuteCmdFn());
        unsigned int result = 0;
        int guard = 0;
        try {
            while (ex.handleRead(in[0], result, "f") && ++guard < 100000) {}
        } catch (...) {
            _exit(3);   // an exception handleRead does not catch (the op loop of this harness must not see it)
        }
        std::string tail = "end result=" + std::to_string(result);
        size_t k = 0;
        for (const auto& s : supprs.nomsg.getSuppressions()) {
            if (k++ >= nInitial)
                tail += " ; S " + showSuppr(s);
        }
        logger.emit(tail);
        _exit(0);
    }
    close(in[0]);
    close(ev[1]);
    const std::string events = drain(ev[0]);
    close(ev[0]);
    int st = 0;
    waitpid(rpid, &st, 0);
    std::string out;
    std::istringstream is(events);
    std::string l;
    while (std::getline(is, l)) {
        if (!out.empty()) out += " ; ";
        out += l;
    }
    std::string status;
    if (WIFEXITED(st) && WEXITSTATUS(st) == 0) status = "ok";
    else if (WIFEXITED(st) && WEXITSTATUS(st) == 3) status = "abort";
    else if (WIFEXITED(st)) status = "fatal";
    else if (WIFSIGNALED(st) && WTERMSIG(st) == SIGABRT) status = "abort";
    else status = "signal" + std::to_string(WIFSIGNALED(st) ? WTERMSIG(st) : -1);
    if (!out.empty()) out += " ; ";
    return out + "status=" + status;
}

class NullLogger : public ErrorLogger {
public:
    void reportOut(const std::string&, Color) override {}
    void reportErr(const ErrorMessage&) override {}
    void reportMetric(const std::string&) override {}
};

class OpenExecutor : public Executor {
public:
    using Executor::Executor;
    unsigned int check() override { return 0; }
};
}

int main() {
    std::signal(SIGPIPE, SIG_IGN);
    std::string line;
    while (std::getline(std::cin, line)) {
        Args a;
        a.f = fields(line);
        const std::string op = a.next();
        std::string out;
        try {
            if (op == "ser") {
                const ErrorMessage m = readMsg(a);
                const std::string s = m.serialize();
                out = "S " + hex(s) + " | D " + desOf(s);
            } else if (op == "des") {
                out = "D " + desOf(a.str());
            } else if (op == "fix") {
                out = "F " + hex(ErrorMessage::fixInvalidChars(a.str()));
            } else if (op == "simp") {
                out = "P " + hex(Path::simplifyPath(a.str()));
            } else if (op == "pl") {
                try {
                    out = "L ok " + showSuppr(SuppressionList::parseLine(a.str()));
                } catch (const std::runtime_error& e) {
                    const std::string w = e.what();
                    if (w.find("filename is missing") != std::string::npos) out = "L E:filename-missing";
                    else if (w.find("invalid line number") != std::string::npos) out = "L E:invalid-line";
                    else if (w.find("unexpected extra") != std::string::npos) out = "L E:unexpected-extra";
                    else out = "L E:other(" + w + ")";
                }
            } else if (op == "senc") {
                out = "E " + hex(PipeWriter::suppressionToString(readSuppr(a)));
            } else if (op == "pw") {
                const char t = static_cast<char>(a.num());
                const std::string data = a.str();
                out = "W " + hex(withWriter([&](PipeWriter& w) { w.writeToPipe(static_cast<PipeWriter::PipeSignal>(t), data); }));
            } else if (op == "pwmsg") {
                const ErrorMessage m = readMsg(a);
                out = "W " + hex(withWriter([&](PipeWriter& w) { w.reportErr(m); }));
            } else if (op == "wsup") {
                const long long n = a.num();
                SuppressionList sl;
                for (long long k = 0; k < n && a.ok; ++k)
                    sl.mSuppressions.push_back(readSuppr(a));
                out = "W " + hex(withWriter([&](PipeWriter& w) { w.writeSuppr(sl); }));
            } else if (op == "hr") {
                const long long emitdup = a.num();
                const std::string ids = a.next();
                const std::string bytes = a.str();
                out = handleReadOp(emitdup, ids, bytes);
            } else if (op == "htl") {
                const long long emitdup = a.num();
                const std::string ids = a.next();
                const long long n = a.num();
                Settings settings;
                Suppressions supprs;
                setup(settings, supprs, emitdup, ids);
                NullLogger logger;
                std::list<FileWithDetails> files;
                std::list<FileSettings> fileSettings;
                OpenExecutor ex(files, fileSettings, settings, supprs, logger, nullptr);
                out = "H ";
                for (long long k = 0; k < n && a.ok; ++k) {
                    const ErrorMessage m = readMsg(a);
                    out += ex.hasToLog(m) ? "1" : "0";
                }
            } else {
                out = "bad-op";
            }
            if (!a.ok) out = "bad-op";
        } catch (const std::exception& e) {
            out = std::string("exception:") + e.what();
        }
        std::cout << out << std::endl;
    }
    return 0;
}

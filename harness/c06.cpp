// C06 harness: the real Tokenizer::simplifyTokens1 in-process; prints the simplified token stream.
// op line:  tk <c|cpp> <hexsource>
// output :  T <hex of Token::stringifyList(false,false,false,false,false): tokens joined by one space>
//           E <what>         the tokenizer rejected the program
#include "common.h"
#include <string>
#include <vector>
#include "config.h"
#include "token.h"
#include "tokenlist.h"
#include "tokenize.h"
#include "settings.h"
#include "errorlogger.h"
#include "errortypes.h"
#include "standards.h"

namespace {
    class Quiet : public ErrorLogger {
    public:
        std::string ids;
        void reportOut(const std::string&, Color) override {}
        void reportErr(const ErrorMessage& m) override { if (!ids.empty()) ids += ','; ids += m.id; }
        void reportMetric(const std::string&) override {}
    };
}

static std::string run(const Settings& settings, bool cpp, const std::string& code) {
    Quiet logger;
    try {
        Tokenizer tokenizer{TokenList{settings, cpp ? Standards::Language::CPP : Standards::Language::C}, logger};
        const char* file = cpp ? "test.cpp" : "test.c";
        tokenizer.list.appendFileIfNew(file);
        if (!tokenizer.list.createTokensFromBuffer(code.data(), code.size()))
            return "E createTokens";
        if (!tokenizer.simplifyTokens1(""))
            return "E simplifyTokens1";
        std::string s;
        for (const Token* t = tokenizer.tokens(); t; t = t->next()) {
            if (!s.empty()) s += ' ';
            s += t->str();
        }
        return "T " + hex(s) + " " + (logger.ids.empty() ? "-" : logger.ids);
    } catch (const InternalError& e) {
        return "E InternalError:" + e.id;
    } catch (const std::exception&) {
        return "E exception";
    }
}

int main() {
    Settings settings;
    std::string line;
    while (std::getline(std::cin, line)) {
        std::vector<std::string> f = fields(line);
        if (f.size() != 3 || f[0] != "tk" || (f[1] != "c" && f[1] != "cpp")) { std::cout << "bad-op" << std::endl; continue; }
        std::cout << run(settings, f[1] == "cpp", unhex(f[2])) << std::endl;
    }
    return 0;
}
